#!/bin/sh
# nothing to build: checks compile a snapshot of /repo with the injected harnesses at run time.
# verify the tools the checks need are present and usable offline.
set -e
cd "$(dirname "$0")"
cargo kani --version
cbmc --version
python3 -c 'import json,sys; json.load(open("MANIFEST.json")); json.load(open("known_findings.json")); print("manifest ok")'
./check C17 --list >/dev/null
echo setup ok
