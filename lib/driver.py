"""Driver for the solver-based checks (see ../check and DESIGN.md)."""
import argparse, atexit, hashlib, json, os, re, resource, shutil, signal, subprocess, sys
import tempfile, threading, time, queue

VERIF = os.path.dirname(os.path.dirname(os.path.abspath(__file__)))
REPO = os.environ.get("VERIF_REPO", "/repo")
HARNESS_DIR = os.path.join(VERIF, "harness")
KF_FILE = os.path.join(VERIF, "known_findings.json")

# (harness subdir, host file under src/, declaration, destination dir under src/, module path)
INJECT = [
    ("root", "lib.rs", "pub(crate) mod verif;", "verif", "verif"),
    ("decoder", "decoder.rs", "mod vh;", "decoder/vh", "decoder::vh"),
    ("planes", "decoder/planes.rs", "mod vh;", "decoder/planes/vh", "decoder::planes::vh"),
    ("position", "decoder/adsb/position.rs", "mod vh;", "decoder/adsb/position/vh",
     "decoder::adsb::position::vh"),
    ("counters", "counters.rs", "mod vh;", "counters/vh", "counters::vh"),
    ("update_position", "decoder/plane/update_position.rs", "mod vh;", "decoder/plane/update_position/vh",
     "decoder::plane::update_position::vh"),
]
CFG_GUARD = "#[cfg(any(kani, verif_replay))]"

ENV_BASE = dict(os.environ, CARGO_NET_OFFLINE="true", CARGO_TERM_COLOR="never")

SEED = [0]
_scratch_dirs = []
_children = set()
_children_lock = threading.Lock()


def log(*a):
    print(*a, flush=True)


def _cleanup():
    with _children_lock:
        procs = list(_children)
    for p in procs:
        try:
            os.killpg(p.pid, signal.SIGKILL)
        except Exception:
            pass
    for d in _scratch_dirs:
        shutil.rmtree(d, ignore_errors=True)


def _on_signal(signum, frame):
    _cleanup()
    os._exit(130)


# ----------------------------------------------------------------------------------------
# harness registry: parsed from `// @harness key=val ...` annotations
# ----------------------------------------------------------------------------------------
class Harness:
    def __init__(self, name, path, attrs, subdir, stem, doc):
        self.name = name
        self.file = path
        self.attrs = attrs
        # props=C05,C11:thorough  -> serves C05 in its own tier and C11 only in the thorough tier
        self.prop_tier = {}
        self.props = []
        for item in attrs.get("props", "").split(","):
            if ":" in item:
                pid, t = item.split(":", 1)
                self.prop_tier[pid] = t
            else:
                pid = item
            self.props.append(pid)
        self.tier = attrs.get("tier", "quick")
        self.cap = int(attrs.get("cap", "600"))
        self.mem_gb = int(attrs.get("mem", "24"))
        self.family = attrs.get("family")
        self.witness = attrs.get("witness")  # key of the known finding this harness witnesses
        self.needs = [x for x in attrs.get("needs", "").split(",") if x]
        self.doc = doc
        modpath = [m for (s, _, _, _, m) in INJECT if s == subdir][0]
        self.fullpath = f"{modpath}::{stem}::{name}"


def parse_harnesses():
    out = []
    for subdir, _, _, _, _ in INJECT:
        d = os.path.join(HARNESS_DIR, subdir)
        if not os.path.isdir(d):
            continue
        for fn in sorted(os.listdir(d)):
            if not fn.endswith(".rs") or fn == "mod.rs":
                continue
            path = os.path.join(d, fn)
            lines = open(path).read().splitlines()
            stem = fn[:-3]
            for l in lines[:5]:
                mm = re.match(r"\s*// @in-module (\w+)", l)
                if mm:
                    stem = mm.group(1)  # an include!()d fragment of that module
            i = 0
            while i < len(lines):
                m = re.match(r"\s*// @harness\s+(.*)$", lines[i])
                if m:
                    attrs = dict(kv.split("=", 1) for kv in m.group(1).split())
                    doc = []
                    name = attrs.get("name")
                    j = i + 1
                    while j < len(lines) and j < i + 40:
                        d2 = re.match(r"\s*//\s?(.*)$", lines[j])
                        if d2 and not lines[j].strip().startswith("// @"):
                            doc.append(d2.group(1))
                        f = re.match(r"\s*(?:pub(?:\(crate\))?\s+)?fn\s+(\w+)\s*\(", lines[j])
                        if f and name is None:
                            name = f.group(1)
                            break
                        mm = re.match(r"\s*\w+!\s*[\(\{]\s*(\w+)\s*,", lines[j])
                        if mm and name is None:
                            name = mm.group(1)
                            break
                        if name is not None and (f or mm):
                            break
                        j += 1
                    if name is None:
                        raise SystemExit(f"annotation without fn at {path}:{i+1}")
                    out.append(Harness(name, path, attrs, subdir, stem, " ".join(doc).strip()))
                i += 1
    names = [h.name for h in out]
    dup = {n for n in names if names.count(n) > 1}
    if dup:
        raise SystemExit(f"duplicate harness names: {dup}")
    return out


def select(harnesses, prop, tier, seed, only):
    sel = [h for h in harnesses if prop in h.props or prop == "all"]
    if only:
        return [h for h in sel if h.name in only]
    if tier == "thorough":
        # tier=manual: kept for the record (e.g. whole-range queries that do not finish); only via --only
        return [h for h in sel if h.prop_tier.get(prop, h.tier) != "manual"]
    quick = [h for h in sel if h.prop_tier.get(prop, h.tier) == "quick"]
    # families: the quick tier runs `quickpick` seeded members of each family (each member is
    # still decided by the solver over its whole domain); thorough runs all members
    fams = {}
    for h in sel:
        if h.family and h.prop_tier.get(prop, h.tier) != "quick" and prop not in h.prop_tier:
            fams.setdefault(h.family, []).append(h)
    for fam, members in sorted(fams.items()):
        k = max(int(m.attrs.get("quickpick", "0")) for m in members)
        if k <= 0:
            continue
        members = sorted(members, key=lambda h: h.name)
        # deterministic seeded choice without replacement
        order = sorted(members, key=lambda h: hashlib.sha256(f"{seed}:{h.name}".encode()).hexdigest())
        quick.extend(order[:k])
    return quick


# ----------------------------------------------------------------------------------------
# known findings
# ----------------------------------------------------------------------------------------
def load_kf():
    if os.path.exists(KF_FILE):
        return json.load(open(KF_FILE))
    return {"open": [], "fixed": []}


def kf_consts(kf):
    keys = {"C05_GILLHAM"}
    open_keys = {e["key"] for e in kf.get("open", [])}
    keys |= open_keys
    s = "//! generated by /verif/check from known_findings.json -- do not edit\n"
    for k in sorted(keys):
        s += f"pub const {k}_OPEN: bool = {'true' if k in open_keys else 'false'};\n"
    return s


# ----------------------------------------------------------------------------------------
# snapshot, injection, rewrites
# ----------------------------------------------------------------------------------------
def make_scratch():
    base = os.environ.get("VERIF_SCRATCH", "/tmp")
    d = tempfile.mkdtemp(prefix="sqv-", dir=base)
    _scratch_dirs.append(d)
    return d


def snapshot(dst, kf, mode, notes):
    """copy /repo's working tree (src, Cargo.*) and inject the harness modules.
    mode = 'kani' (with rewrites) or 'replay' (unrewritten)."""
    os.makedirs(dst)
    shutil.copytree(os.path.join(REPO, "src"), os.path.join(dst, "src"))
    for f in ("Cargo.toml", "Cargo.lock"):
        shutil.copy(os.path.join(REPO, f), os.path.join(dst, f))
    os.makedirs(os.path.join(dst, ".cargo"))
    with open(os.path.join(dst, ".cargo", "config.toml"), "w") as f:
        f.write("[net]\noffline = true\n")
    with open(os.path.join(dst, "Cargo.toml"), "a") as f:
        f.write('\n[lints.rust]\nunexpected_cfgs = { level = "allow" }\n')
    src = os.path.join(dst, "src")
    for subdir, host, decl, dest, _ in INJECT:
        hd = os.path.join(HARNESS_DIR, subdir)
        if not os.path.exists(os.path.join(hd, "mod.rs")):
            continue
        hostp = os.path.join(src, host)
        if not os.path.exists(hostp):
            notes.append(f"inject: host file src/{host} missing -> harnesses of '{subdir}' cannot build")
            continue
        shutil.copytree(hd, os.path.join(src, dest))
        with open(hostp, "a") as f:
            f.write(f"\n{CFG_GUARD}\n{decl}\n")
    if os.environ.get("VERIF_PINNED_TREE") == "1":
        # re-demonstrating the original defects on the pinned tree: drop harnesses that name post-repair functions
        for rel, decl in (("decoder/vh/c04b.rs", "mod c04b;"),):
            fp = os.path.join(src, rel)
            if os.path.exists(fp):
                os.remove(fp)
                mp = os.path.join(os.path.dirname(fp), "mod.rs")
                txt = open(mp).read().replace(decl + "\n", "")
                open(mp, "w").write(txt)
        notes.append("VERIF_PINNED_TREE=1: harness file c04b.rs (names post-repair functions) dropped")
    with open(os.path.join(src, "verif", "kf.rs"), "w") as f:
        f.write(kf_consts(kf))
    with open(os.path.join(src, "verif", "seed.rs"), "w") as f:
        f.write(f"//! generated: VERIF_SEED of this run\npub const SEED: u64 = {SEED[0]};\n")
    if mode == "kani":
        from rewrites import apply_rewrites
        apply_rewrites(src, notes)
    return dst


# ----------------------------------------------------------------------------------------
# running kani
# ----------------------------------------------------------------------------------------
def _limits(mem_gb):
    def f():
        os.setsid()
        lim = mem_gb * (1 << 30)
        try:
            resource.setrlimit(resource.RLIMIT_AS, (lim, lim))
        except Exception:
            pass
    return f


def run_cmd(cmd, cwd, env, timeout, logpath, mem_gb=None):
    t0 = time.time()
    with open(logpath, "w") as lf:
        p = subprocess.Popen(cmd, cwd=cwd, env=env, stdout=lf, stderr=subprocess.STDOUT,
                             preexec_fn=_limits(mem_gb) if mem_gb else os.setsid)
        with _children_lock:
            _children.add(p)
        timed_out = False
        try:
            p.wait(timeout=timeout)
        except subprocess.TimeoutExpired:
            timed_out = True
            try:
                os.killpg(p.pid, signal.SIGKILL)
            except Exception:
                pass
            p.wait()
        finally:
            # kill stragglers of the process group (cbmc children)
            try:
                os.killpg(p.pid, signal.SIGKILL)
            except Exception:
                pass
            with _children_lock:
                _children.discard(p)
    return p.returncode, timed_out, time.time() - t0


RE_FAILED = re.compile(r"^Failed Checks: (.*)$")
RE_SUMMARY = re.compile(r"\*\* (\d+) of (\d+) failed(?: \((.*)\))?")
RE_COVER = re.compile(r"\*\* (\d+) of (\d+) cover properties satisfied")


def parse_kani_log(text):
    r = {"status": None, "cbmc_crash": None, "failed_checks": [], "checks_total": 0, "checks_failed": 0,
         "cover_sat": 0, "cover_total": 0, "cover_unsat": [], "verif_time_s": None,
         "solver_s": None, "symex_s": None, "vars": None, "clauses": None, "steps": None,
         "vccs": None, "playback": [], "unwind_fail": False, "unsupported": [],
         "functions": [], "stubs": []}
    lines = text.splitlines()
    for i, l in enumerate(lines):
        if l.startswith("VERIFICATION:- "):
            r["status"] = l.split("VERIFICATION:- ")[1].strip().split()[0]
        m = re.match(r"CBMC failed with status (\d+)", l)
        if m:
            r["cbmc_crash"] = int(m.group(1))
        if l.startswith("CBMC timed out"):
            r["cbmc_crash"] = -1
        if l.startswith("CBMC failed") and r["cbmc_crash"] is None:
            r["cbmc_crash"] = 0
        if "appears to have run out of memory" in l or "Solver ran out of memory" in l:
            r["cbmc_crash"] = 137
        m = RE_FAILED.match(l)
        if m:
            loc = lines[i + 1].strip() if i + 1 < len(lines) else ""
            r["failed_checks"].append({"desc": m.group(1).strip(), "loc": loc})
        m = RE_SUMMARY.search(l)
        if m:
            r["checks_failed"], r["checks_total"] = int(m.group(1)), int(m.group(2))
        m = RE_COVER.search(l)
        if m:
            r["cover_sat"], r["cover_total"] = int(m.group(1)), int(m.group(2))
        m = re.match(r"Verification Time: ([\d.]+)s", l)
        if m:
            r["verif_time_s"] = float(m.group(1))
        m = re.match(r"Runtime Solver: ([\d.eE+-]+)s", l)
        if m:
            r["solver_s"] = round((r["solver_s"] or 0.0) + float(m.group(1)), 3)
        m = re.match(r"Runtime Symex: ([\d.eE+-]+)s", l)
        if m:
            r["symex_s"] = float(m.group(1))
        m = re.match(r"(\d+) variables, (\d+) clauses", l)
        if m:
            r["vars"], r["clauses"] = int(m.group(1)), int(m.group(2))
        m = re.match(r"size of program expression: (\d+) steps", l)
        if m:
            r["steps"] = int(m.group(1))
        m = re.match(r"Generated (\d+) VCC\(s\), (\d+) remaining", l)
        if m:
            r["vccs"] = int(m.group(2))
        m = re.match(r"\s*- Stub: (.*)$", l)
        if m:
            r["stubs"].append(m.group(1).strip())
    # per-check blocks: status + description + location
    funcs = set()
    blocks = re.split(r"\nCheck \d+: ", text)
    for b in blocks[1:]:
        st = re.search(r"- Status: (\w+)", b)
        de = re.search(r'- Description: "(.*)"', b)
        lo = re.search(r"- Location: (.*)", b)
        if not st:
            continue
        status = st.group(1)
        desc = de.group(1) if de else ""
        loc = lo.group(1).strip() if lo else ""
        fm = re.search(r"in function (.*)$", loc)
        if fm and loc.startswith("src/") and "::vh::" not in fm.group(1) and "verif::" not in fm.group(1):
            funcs.add(fm.group(1).strip())
        if "unwinding assertion" in desc and status == "FAILURE":
            r["unwind_fail"] = True
        if status in ("UNSATISFIABLE", "UNREACHABLE") and b.split("\n", 1)[0].find(".cover.") >= 0:
            r["cover_unsat"].append(desc)
        if status == "FAILURE" and ("is not currently supported" in desc or "unsupported" in desc.lower()):
            r["unsupported"].append(desc)
    r["functions"] = sorted(funcs)
    # concrete playback values
    in_pb = False
    cur = []
    for l in lines:
        if l.startswith("Concrete playback unit test for"):
            in_pb = True
            cur = []
            continue
        if in_pb:
            m = re.match(r"^\s*vec!\[([0-9,\s]*)\],?\s*$", l)
            if m and m.group(1).strip() != "":
                cur.append([int(x) for x in m.group(1).replace(" ", "").split(",") if x != ""])
            if "kani::concrete_playback_run" in l:
                r["playback"].append(cur)
                in_pb = False
    return r


def make_playback_snapshot(snap, scratch):
    """copy of the kani snapshot in which vcover! is a no-op: the playback run then produces traces for
    failed assertions only (every satisfied cover costs one full trace, and kani-driver needs gigabytes
    per trace). (--stop-on-fail would leave one trace, but kani-driver cannot parse that output.)"""
    dst = os.path.join(scratch, "snap-pb")
    if not os.path.exists(dst):
        shutil.copytree(snap, dst)
        rt = os.path.join(dst, "src", "verif", "rt.rs")
        txt = open(rt).read()
        txt = txt.replace("kani::cover!($c, $msg);", "let _ = $c;")
        open(rt, "w").write(txt)
    return dst


def kani_cmd(h, target_dir, playback):
    """phase 1: terse output (kani-driver's 'regular' post-processing of ~10k checks costs ~100 s);
    phase 2 (only after a failure): the same query with concrete playback printed"""
    cmd = ["cargo", "kani", "--harness", h.fullpath, "--exact", "-Z", "stubbing",
           "--target-dir", target_dir, "--output-format", os.environ.get("VERIF_FORMAT", "terse")]
    if playback:
        cmd += ["-Z", "concrete-playback", "--concrete-playback=print"]
    cmd += [x for x in h.attrs.get("flags", "").split(",") if x]
    return cmd


def classify(h, res, rc, timed_out):
    """-> 'holds' | 'fails' | 'inconclusive', reason"""
    if timed_out:
        return "inconclusive", f"timeout after {h.cap}s"
    if res["cbmc_crash"] is not None:
        return "inconclusive", f"CBMC aborted (status {res['cbmc_crash']}): out of memory under the {h.mem_gb} GB limit or solver crash"
    if res["status"] is None:
        return "inconclusive", f"no verdict (exit {rc}): build error, OOM or solver crash"
    if res["unwind_fail"] or any("unwinding assertion" in c["desc"] for c in res["failed_checks"]):
        return "inconclusive", "unwinding assertion failed (bound too small)"
    if res["unsupported"]:
        return "inconclusive", "unsupported construct reachable: " + res["unsupported"][0]
    if res["status"] == "SUCCESSFUL":
        if res["cover_total"] and res["cover_sat"] < res["cover_total"]:
            return "inconclusive", "vacuity: unsatisfied cover: " + "; ".join(res["cover_unsat"])
        return "holds", ""
    if res["status"] == "FAILED":
        if not res["failed_checks"]:
            return "inconclusive", "FAILED without failed checks (CBMC aborted: out of memory / solver error)"
        return "fails", "; ".join(sorted({c["desc"] for c in res["failed_checks"]}))
    return "inconclusive", "status " + str(res["status"])


# ----------------------------------------------------------------------------------------
# native replay
# ----------------------------------------------------------------------------------------
class Replayer:
    """builds (once) the unrewritten snapshot with cfg(verif_replay) and runs single harnesses
    natively with the values of a counterexample, in the dev and the release profile"""

    def __init__(self, scratch, kf, notes):
        self.scratch, self.kf, self.notes = scratch, kf, notes
        self.snap = None
        self.lock = threading.Lock()

    def ensure(self):
        with self.lock:
            if self.snap is None:
                self.snap = snapshot(os.path.join(self.scratch, "replay-snap"), self.kf, "replay", self.notes)
        return self.snap

    def run(self, h, values, profile, tag):
        snap = self.ensure()
        vf = os.path.join(self.scratch, f"replay-{h.name}-{tag}.txt")
        with open(vf, "w") as f:
            for v in values:
                f.write("".join(f"{b:02x}" for b in v) + "\n")
        env = dict(ENV_BASE, RUSTFLAGS="--cfg verif_replay", VERIF_REPLAY_FILE=vf,
                   RUST_BACKTRACE="0")
        cmd = ["cargo", "test", "--offline", "--lib", "--target-dir",
               os.path.join(self.scratch, "replay-target")]
        if profile == "release":
            cmd.append("--release")
        cmd += ["--", "--exact", h.fullpath, "--nocapture", "--test-threads", "1"]
        logp = os.path.join(self.scratch, f"replay-{h.name}-{tag}-{profile}.log")
        with self.lock:  # one cargo at a time in this target dir
            rc, to, dt = run_cmd(cmd, snap, env, 900, logp)
        text = open(logp, errors="replace").read()
        out = {"profile": profile, "rc": rc, "wall_s": round(dt, 1)}
        if to:
            out["verdict"] = "error"; out["detail"] = "replay build/run timeout"
        elif "VERIF-ASSUME-FAILED" in text:
            out["verdict"] = "not-applicable"; out["detail"] = "replayed values violate a harness assumption"
        elif "running 1 test" not in text:
            out["verdict"] = "error"; out["detail"] = "replay did not build or harness not found: " + text[-600:]
        elif re.search(r"test result: ok\. 1 passed", text):
            out["verdict"] = "not-reproduced"; out["detail"] = "native run passes"
        else:
            m = re.search(r"panicked at ([^\n]*)\n([^\n]*)", text)
            out["verdict"] = "reproduced"
            out["detail"] = (m.group(1) + " :: " + m.group(2)) if m else text[-400:]
            out["kind"] = "property-assertion" if "VERIF-ASSERT-FAILED" in text else "panic-in-code"
        return out


# ----------------------------------------------------------------------------------------
# main
# ----------------------------------------------------------------------------------------
def decode_view(h, values):
    """human-readable view of a counterexample: the frame nibbles when the harness starts with
    frame14()/frame28()"""
    view = {}
    src = open(h.file).read()
    body = src[src.find("fn " + h.name):]
    body = body[: body.find("\n}\n") if "\n}\n" in body else len(body)]
    ints = [int.from_bytes(bytes(v), "little") for v in values]
    pos28, pos14 = body.find("frame28()"), body.find("frame14()")
    first_any = min([p for p in [body.find("any_"), pos14, pos28] if p >= 0] or [-1])
    n = 28 if (pos28 >= 0 and pos28 == first_any) else 14 if (pos14 >= 0 and pos14 == first_any) else 0
    if n and len(ints) >= n and all(x < 16 for x in ints[:n]):
        view["frame_hex_as_drawn"] = "".join("%X" % x for x in ints[:n])
        view["note"] = "DF/TC bits may be overwritten by set_bits() in the harness after drawing"
    view["values"] = ints[:64]
    return view


def main(argv):
    ap = argparse.ArgumentParser()
    ap.add_argument("prop")
    ap.add_argument("--tier", default=os.environ.get("VERIF_TIER", "quick"))
    ap.add_argument("--only", default="")
    ap.add_argument("--jobs", type=int, default=int(os.environ.get("VERIF_JOBS", "0")))
    ap.add_argument("--keep", action="store_true")
    ap.add_argument("--list", action="store_true")
    ap.add_argument("--replay", default=None)
    ap.add_argument("--no-evidence", action="store_true")
    ap.add_argument("--capx", type=float, default=float(os.environ.get("VERIF_CAPX", "1")))
    a = ap.parse_args(argv)
    if a.tier not in ("quick", "thorough"):
        a.tier = "quick"
    try:
        seed = int(os.environ.get("VERIF_SEED", "0"))
    except ValueError:
        seed = 0
    SEED[0] = seed & 0xFFFFFFFF
    prop = a.prop
    t_start = time.time()
    signal.signal(signal.SIGTERM, _on_signal)
    signal.signal(signal.SIGINT, _on_signal)
    if not a.keep:
        atexit.register(_cleanup)

    harnesses = parse_harnesses()
    kf = load_kf()
    if a.replay:
        return replay_only(a, harnesses, kf)
    only = [x for x in a.only.split(",") if x]
    sel = select(harnesses, prop, a.tier, seed, only)
    if a.list:
        for h in sel:
            log(f"{h.name:44s} tier={h.tier:8s} cap={h.cap:5d} props={','.join(h.props)} {h.fullpath}")
        return 0
    if not sel:
        log(f"no harness serves {prop}")
        return 2

    scratch = make_scratch()
    notes = []
    log(f"[check] property={prop} tier={a.tier} seed={seed} harnesses={len(sel)} scratch={scratch}")
    snap = snapshot(os.path.join(scratch, "snap"), kf, "kani", notes)
    # the unrewritten twin for native replay is taken at the same moment (same /repo state)
    replayer = Replayer(scratch, kf, [])
    replayer.ensure()
    unique = bool(only) or "VERIF_REPO" in os.environ  # concurrent mutation runs of one property must not share a log dir
    logdir = os.path.join(VERIF, "logs", prop if not unique else f"{prop}-run-{os.getpid()}")
    shutil.rmtree(logdir, ignore_errors=True)
    os.makedirs(logdir, exist_ok=True)

    # guards required by selected harnesses (e.g. float-% rewrite validated on the MIR)
    guard_fail = {}
    needs = sorted({n for h in sel for n in h.needs})
    if needs:
        from rewrites import run_guards
        guard_fail = run_guards(needs, snap, scratch, notes, ENV_BASE)

    # harnesses marked native=1 (concrete-vector self-tests of the oracles) run natively in the
    # unrewritten snapshot instead of through Kani
    natives = [h for h in sel if h.attrs.get("native")]
    sel_kani = [h for h in sel if not h.attrs.get("native")]
    jobs = a.jobs or min(len(sel), 8 if a.tier == "quick" else 8)
    q = queue.Queue()
    # long ones first
    for h in sorted(sel_kani, key=lambda h: -h.cap):
        q.put(h)
    results = {}
    for h in natives:
        out = replayer.run(h, [], "dev", "native")
        ok = out["verdict"] == "not-reproduced"
        res0 = parse_kani_log("")
        res0["cover_total"] = res0["cover_sat"] = 1 if ok else 0
        res0["checks_total"] = 1
        results[h.name] = {"verdict": "holds" if ok else "inconclusive",
                           "reason": "" if ok else "native oracle self-test failed: " + out.get("detail", "")[:300],
                           "res": res0, "wall_s": out["wall_s"]}
        log(f"[{h.name}] {'HOLDS' if ok else 'INCONCLUSIVE'} native self-test {results[h.name]['reason']} ({out['wall_s']}s)")
    rlock = threading.Lock()
    playback_lock = threading.Lock()

    first_only = os.environ.get("VERIF_FIRST_ONLY") == "1"  # detection runs: one reproduced violation is enough
    stop_flag = threading.Event()

    def worker(wi):
        tdir = os.path.join(scratch, f"t{wi}")
        while True:
            try:
                h = q.get_nowait()
            except queue.Empty:
                return
            if first_only and stop_flag.is_set():
                with rlock:
                    results[h.name] = {"verdict": "skipped", "reason": "skipped: VERIF_FIRST_ONLY and another harness already failed",
                                       "res": parse_kani_log(""), "wall_s": 0.0}
                continue
            bad = [n for n in h.needs if n in guard_fail]
            if bad:
                with rlock:
                    results[h.name] = {"verdict": "inconclusive", "reason": "guard failed: " + guard_fail[bad[0]],
                                       "res": parse_kani_log(""), "wall_s": 0.0}
                log(f"[{h.name}] INCONCLUSIVE guard failed: {guard_fail[bad[0]]}")
                continue
            logp = os.path.join(logdir, h.name + ".log")
            cap = int(h.cap * a.capx)
            rc, to, dt = run_cmd(kani_cmd(h, tdir, False), snap, ENV_BASE, cap, logp, h.mem_gb)
            text = open(logp, errors="replace").read()
            res = parse_kani_log(text)
            is_open_witness = bool(h.witness) and h.witness in {e["key"] for e in kf.get("open", [])}
            if first_only and res["status"] == "FAILED" and res["failed_checks"] and not is_open_witness:
                already = stop_flag.is_set()
                stop_flag.set()
            else:
                already = False
            if res["status"] == "FAILED" and not to and res["cbmc_crash"] is None and res["failed_checks"] and not already:
                logp2 = os.path.join(logdir, h.name + ".playback.log")
                # kani-driver needs several GB (up to tens) to parse CBMC's JSON trace: one at a time, 48 GB
                with playback_lock:
                    pb_snap = make_playback_snapshot(snap, scratch)
                    rc2, to2, dt2 = run_cmd(kani_cmd(h, tdir + "-pb", True), pb_snap, ENV_BASE, max(cap * 2, 1800), logp2, 48)
                res2 = parse_kani_log(open(logp2, errors="replace").read())
                res["playback"] = res2["playback"]
                dt += dt2
            verdict, reason = classify(h, res, rc, to)
            if verdict == "inconclusive" and not to and res["status"] is None:
                tail = [l for l in text.splitlines() if l.startswith("error")][:3]
                if tail:
                    reason += " :: " + " | ".join(tail)
            with rlock:
                results[h.name] = {"verdict": verdict, "reason": reason, "res": res, "wall_s": round(dt, 1)}
            log(f"[{h.name}] {verdict.upper()} {reason} ({dt:.0f}s wall, solver {res['solver_s']}s, "
                f"{res['checks_total']} checks, cover {res['cover_sat']}/{res['cover_total']})")

    def safe_worker(wi):
        try:
            worker(wi)
        except Exception as ex:  # never lose a harness silently
            log(f"[worker {wi}] crashed: {ex!r}")

    threads = [threading.Thread(target=safe_worker, args=(i,)) for i in range(jobs)]
    for t in threads:
        t.start()
    for t in threads:
        t.join()

    # ---- replay failures natively -------------------------------------------------------
    open_by_key = {e["key"]: e for e in kf.get("open", [])}
    violations, known_lines, inconclusive = [], [], []
    known_by_key = {}
    os.makedirs(os.path.join(VERIF, "replays", prop), exist_ok=True)
    for h in sel:
        if h.name not in results:
            results[h.name] = {"verdict": "inconclusive", "reason": "worker crashed before a verdict", "res": parse_kani_log(""), "wall_s": 0.0}
        r = results[h.name]
        if r["verdict"] == "skipped":
            continue
        if r["verdict"] == "inconclusive":
            if h.witness and h.witness in open_by_key:
                inconclusive.append((h, "witness of open finding inconclusive: " + r["reason"]))
            elif h.witness:
                inconclusive.append((h, r["reason"]))
            else:
                inconclusive.append((h, r["reason"]))
            continue
        if r["verdict"] == "holds":
            continue
        # fails: kani prints one playback vector per failed check AND per satisfied cover; replay the
        # distinct ones natively (dev first) until one reproduces, then also run it in release
        pbs = []
        for v in r["res"]["playback"]:
            if v not in pbs:
                pbs.append(v)
        pbs = pbs[:12]
        if not pbs:
            inconclusive.append((h, "solver reports a failure but printed no concrete values: " + r["reason"]))
            r["verdict"] = "inconclusive"
            continue
        r["replays"] = []
        reproduced = None
        for k, vals in enumerate(pbs):
            rr = {"values": vals, "runs": []}
            out = replayer.run(h, vals, "dev", str(k))
            rr["runs"].append(out)
            log(f"[{h.name}] replay#{k} dev: {out['verdict']} {out.get('detail','')[:200]}")
            if out["verdict"] != "reproduced":
                # the property may only fail in the profile users run
                out2 = replayer.run(h, vals, "release", str(k))
                rr["runs"].append(out2)
                log(f"[{h.name}] replay#{k} release: {out2['verdict']} {out2.get('detail','')[:200]}")
            r["replays"].append(rr)
            if any(x["verdict"] == "reproduced" for x in rr["runs"]):
                if len(rr["runs"]) == 1:
                    out2 = replayer.run(h, vals, "release", str(k))
                    rr["runs"].append(out2)
                    log(f"[{h.name}] replay#{k} release: {out2['verdict']} {out2.get('detail','')[:200]}")
                reproduced = rr
                break
        if reproduced is None:
            r["verdict"] = "inconclusive"
            r["reason"] = "counterexample does not reproduce natively (encoding/stub issue): " + r["reason"]
            inconclusive.append((h, r["reason"]))
            continue
        body = {"property": prop, "harness": h.name, "harness_path": h.fullpath,
                "failed_checks": r["res"]["failed_checks"], "values": reproduced["values"],
                "native_runs": reproduced["runs"], "view": decode_view(h, reproduced["values"]),
                "repo_head": git_head(), "doc": h.doc}
        hsh = hashlib.sha256(json.dumps(body["values"]).encode()).hexdigest()[:10]
        rp = os.path.join(VERIF, "replays", prop, f"{h.name}-{hsh}.json")
        json.dump(body, open(rp, "w"), indent=1)
        r["replay_file"] = rp
        if h.witness and h.witness in open_by_key:
            e = open_by_key[h.witness]
            known_by_key.setdefault(e["key"], []).append((h.name, os.path.relpath(rp, VERIF)))
            r["verdict"] = "known-finding"
        else:
            violations.append((h, rp, r))
            r["verdict"] = "violation"

    # a witness of an open finding that now *holds* simply prints no KNOWN-FINDING line.
    for key, ws in sorted(known_by_key.items()):
        e = open_by_key[key]
        known_lines.append(f"KNOWN-FINDING: property={prop} {e['what']} [key={key} witnesses=" +
                           ",".join(f"{n}:{r}" for n, r in ws) + "]")
    for l in known_lines:
        log(l)
    for h, rp, r in violations:
        log(f"VIOLATION property={prop} replay={rp}")
        log(f"  harness={h.name} :: {r['reason']}")
    for h, why in inconclusive:
        log(f"INCONCLUSIVE property={prop} harness={h.name} :: {why}")
    for n in notes:
        log(f"note: {n}")

    wall = time.time() - t_start
    if not a.no_evidence and not only:
        write_evidence(prop, a.tier, seed, sel, results, violations, known_lines, inconclusive, notes, wall, kf)
    if not a.keep:
        _cleanup()
    if violations:
        return 1
    if inconclusive:
        return 2
    log(f"[check] property={prop} HOLDS on {len(sel)} harnesses ({wall:.0f}s)")
    return 0


def git_head():
    try:
        return subprocess.check_output(["git", "-C", REPO, "rev-parse", "--short", "HEAD"], text=True).strip()
    except Exception:
        return "?"


def replay_only(a, harnesses, kf):
    body = json.load(open(a.replay))
    hs = [h for h in harnesses if h.name == body["harness"]]
    if not hs:
        log("unknown harness " + body["harness"])
        return 2
    scratch = make_scratch()
    notes = []
    rp = Replayer(scratch, kf, notes)
    any_rep = False
    for profile in ("dev", "release"):
        out = rp.run(hs[0], body["values"], profile, "r")
        log(f"[{hs[0].name}] replay {profile}: {out['verdict']} {out.get('detail','')}")
        any_rep |= out["verdict"] == "reproduced"
    if any_rep:
        log(f"VIOLATION property={body['property']} replay={os.path.abspath(a.replay)}")
        return 1
    return 0


def repo_fn_names():
    names = set()
    for root, _, files in os.walk(os.path.join(REPO, "src")):
        for f in files:
            if f.endswith(".rs"):
                for m in re.finditer(r"\bfn\s+(\w+)\s*[<(]", open(os.path.join(root, f), errors="replace").read()):
                    names.add(m.group(1))
    return names - {"new", "default", "fmt", "from", "main", "tests"}


def functions_driven(sel):
    """functions of /repo that the selected harness files call by name (entry points of the encoding;
    everything they reach is encoded too)"""
    names = repo_fn_names()
    driven = set()
    files = {h.file for h in sel}
    files.add(os.path.join(HARNESS_DIR, "decoder", "rows.rs"))  # apply/create/accepted helpers
    for f in sorted(files):
        txt = open(f).read()
        for m in re.finditer(r"\b(\w+)\s*\(", txt):
            if m.group(1) in names:
                driven.add(m.group(1))
    return sorted(driven)


def write_evidence(prop, tier, seed, sel, results, violations, known_lines, inconclusive, notes, wall, kf):
    samples, funcs, stubs = [], set(), set()
    obligations = discharged = 0
    solver_s = 0.0
    nontrivial = 0
    for h in sel:
        r = results[h.name]
        res = r["res"]
        funcs |= set(res["functions"])
        stubs |= set(res["stubs"])
        obligations += res["checks_total"]
        discharged += res["checks_total"] - res["checks_failed"]
        solver_s += res["solver_s"] or 0.0
        if r["verdict"] in ("holds", "known-finding", "violation") and res["cover_total"] > 0 and res["cover_sat"] == res["cover_total"]:
            nontrivial += 1
        s = {"harness": h.fullpath, "domain": h.doc, "verdict": r["verdict"], "reason": r["reason"],
             "kani_checks": res["checks_total"], "kani_checks_failed": res["checks_failed"],
             "cover_satisfied": f"{res['cover_sat']}/{res['cover_total']}",
             "sat_vars": res["vars"], "sat_clauses": res["clauses"], "program_steps": res["steps"],
             "cbmc_s": res["verif_time_s"], "solver_s": res["solver_s"], "symex_s": res["symex_s"], "wall_s": r["wall_s"],
             "unwind": re.findall(r"kani::unwind\((\d+)\)", _harness_src(h))[:1]}
        if "replay_file" in r:
            s["replay"] = os.path.relpath(r["replay_file"], VERIF)
        if "replays" in r:
            s["native_replays"] = [[x["verdict"] + ":" + x["profile"] for x in rr["runs"]] for rr in r["replays"]]
        samples.append(s)
    ev = {
        "property_id": prop, "tier": tier, "seed": seed, "level": "model_checking",
        "coverage": {
            "evaluations": len(sel),
            "distinct_nontrivial": nontrivial,
            "rule": "one evaluation = one Kani/CBMC query (a proof harness decided by CaDiCaL over ALL values of its "
                    "symbolic inputs within the stated unwinding bounds, unwinding assertions on); a query counts as "
                    "distinct and non-trivial when every kani::cover! vacuity witness in it was SATISFIED and it "
                    "reached a verdict",
            "samples": samples,
            "obligations": obligations, "discharged": discharged,
            "functions_driven": functions_driven(sel),
            "functions_encoded_reported_by_cbmc": sorted(funcs),
            "stubs": sorted(stubs),
            "cbmc_s": round(sum((results[h.name]["res"]["verif_time_s"] or 0.0) for h in sel), 1),
            "solver_s": round(solver_s, 2),
            "exhaustive": False,
            "explanation": "bounded model checking of the compiled MIR of /repo's working tree (snapshot taken at run "
                           "time); see DESIGN.md for the per-harness domains and what lies outside them",
            "known_findings_reported": known_lines,
            "inconclusive": [f"{h.name}: {why}" for h, why in inconclusive],
            "notes": notes,
            "repo_head": git_head(),
        },
        "assumptions": [
            "rustc MIR + Kani 0.68 / CBMC 6.11 / CaDiCaL are trusted for 'holds' verdicts; violations are replayed natively",
            "chrono::Utc::now stubbed by a fixed instant where listed under stubs; stored stamps are now-age with symbolic age",
            "std HashMap/BTreeMap replaced by bounded association-list models in table-level harnesses (kani mode only)",
            "oracles in harness/root/spec*.rs are the specification (Annex 10 / Doc 9871 / DO-260B) as transcribed in /verif",
        ],
        "wall_s": round(wall, 1),
        "violations": len(violations),
    }
    os.makedirs(os.path.join(VERIF, "evidence"), exist_ok=True)
    tmp = os.path.join(VERIF, "evidence", f".{prop}.json.tmp")
    json.dump(ev, open(tmp, "w"), indent=1)
    os.replace(tmp, os.path.join(VERIF, "evidence", f"{prop}.json"))


_src_cache = {}


def _harness_src(h):
    if h.file not in _src_cache:
        _src_cache[h.file] = open(h.file).read()
    s = _src_cache[h.file]
    i = s.find("fn " + h.name + "(")
    j = s.rfind("// @harness", 0, i)
    return s[j:i] if i >= 0 and j >= 0 else ""
