"""Mechanical rewrites applied to the *kani* snapshot only, plus the guards that validate them.
Every rewrite is part of the claim and is listed in the evidence notes."""
import os, re, subprocess, time


def _sub_file(path, pattern, repl, notes, what, count=0):
    s = open(path).read()
    s2, n = re.subn(pattern, repl, s, count=count)
    if n == 0:
        notes.append(f"rewrite '{what}': pattern not found in {os.path.basename(path)} "
                     f"(harnesses that depend on it will fail to build -> inconclusive)")
        return 0
    open(path, "w").write(s2)
    notes.append(f"rewrite '{what}': {n} site(s) in {os.path.relpath(path, os.path.dirname(os.path.dirname(path)))}")
    return n


def apply_rewrites(src, notes):
    # --- std maps -> bounded association-list models (kani only) ---------------------------
    p = os.path.join(src, "decoder", "planes.rs")
    if os.path.exists(p):
        n = _sub_file(p, r"\bcollections::HashMap\b(?!\s+as)", "collections::HashMap as StdHashMapUnusedByVerif",
                      notes, "HashMap -> model_map::HashMap (planes.rs)")
        if n:
            with open(p, "a") as f:
                f.write("\n#[cfg(kani)]\nuse crate::verif::model_map::HashMap;\n#[cfg(not(kani))]\nuse StdHashMapUnusedByVerif as HashMap;\n")
    p = os.path.join(src, "counters.rs")
    if os.path.exists(p):
        n = _sub_file(p, r"\bcollections::BTreeMap\b(?!\s+as)", "collections::BTreeMap as StdBTreeMapUnusedByVerif",
                      notes, "BTreeMap -> model_map::BTreeMap (counters.rs)")
        if n:
            with open(p, "a") as f:
                f.write("\n#[cfg(kani)]\nuse crate::verif::model_map::BTreeMap;\n#[cfg(not(kani))]\nuse StdBTreeMapUnusedByVerif as BTreeMap;\n")
    # --- float remainder: Kani lowers `f64 % f64` to IEEE remainder, not fmod ------------------
    # every `expr % <float literal>` in the decoder sources becomes kfmod(expr, lit), an exact
    # integer-valued fmod that asserts its own domain (see harness/root/fmod.rs)
    for rel in ("decoder/adsb/position.rs", "decoder/ehs/base.rs"):
        p = os.path.join(src, rel)
        if not os.path.exists(p):
            continue
        s = open(p).read()
        s2, n = rewrite_float_rem(s)
        if n:
            open(p, "w").write(s2)
            notes.append(f"rewrite 'f64 % literal -> kfmod': {n} site(s) in {rel}")


def _matching_open(s, close_idx):
    """index of the '(' matching the ')' at close_idx"""
    depth = 0
    i = close_idx
    while i >= 0:
        if s[i] == ")":
            depth += 1
        elif s[i] == "(":
            depth -= 1
            if depth == 0:
                return i
        i -= 1
    return -1


def rewrite_float_rem(s):
    """`(X) % 60.0` -> `crate::verif::fmod::kfmod((X), 60.0)`, `ident % 59.0` likewise.
    Only float literals on the right-hand side are touched (integer `%` is left alone)."""
    n = 0
    out = s
    while True:
        m = re.search(r"\s%\s(\d+\.\d+)", out)
        if not m:
            break
        lit = m.group(1)
        # left operand: either a parenthesised group or an identifier/field path ending right before m.start()
        j = m.start() - 1
        while j >= 0 and out[j].isspace():
            j -= 1
        if out[j] == ")":
            i = _matching_open(out, j)
            # include a preceding method/ident path, e.g. `foo.bar(...)`
            k = i - 1
            while k >= 0 and (out[k].isalnum() or out[k] in "._"):
                k -= 1
            i = k + 1
        else:
            i = j
            while i >= 0 and (out[i].isalnum() or out[i] in "._"):
                i -= 1
            i += 1
        lhs = out[i:j + 1]
        out = out[:i] + f"crate::verif::fmod::kfmod({lhs}, {lit})" + out[m.end():]
        n += 1
        if n > 20:
            break
    return out, n


# ----------------------------------------------------------------------------------------
# guards
# ----------------------------------------------------------------------------------------
def run_guards(needs, snap, scratch, notes, env):
    """-> {need: reason} for every guard that FAILED"""
    fail = {}
    if "kfmod" in needs:
        why = guard_no_float_rem(snap, scratch, notes, env)
        if why:
            fail["kfmod"] = why
    return fail


def guard_no_float_rem(snap, scratch, notes, env):
    """dump the MIR of the rewritten snapshot (cfg(kani) is not set for this dump, so the
    harness modules are absent; the rewritten decoder functions are there) and make sure no
    floating-point Rem is left in the decoder functions."""
    t0 = time.time()
    # the kfmod module must exist outside cfg(kani) for this dump: compile with --cfg verif_replay
    cmd = ["cargo", "+nightly", "rustc", "--offline", "--lib", "--target-dir", os.path.join(scratch, "mir-target"),
           "--", "--cfg", "verif_replay", "-Zunpretty=mir", "-C", "debug-assertions=off"]
    p = subprocess.run(cmd, cwd=snap, env=env, capture_output=True, text=True, timeout=600)
    if p.returncode != 0:
        return "MIR dump failed: " + p.stderr[-300:]
    mir = p.stdout
    bad = []
    cur = None
    ftypes = {}
    for line in mir.splitlines():
        m = re.match(r"^fn (\S+?)\(", line)
        if m:
            cur = m.group(1)
            ftypes = {}
        m = re.match(r"\s+let (?:mut )?(_\d+): (\w+);", line)
        if m:
            ftypes[m.group(1)] = m.group(2)
        m = re.search(r"= Rem\((?:copy |move )?(_\d+|const [^,]+), ", line)
        if m and cur:
            op = m.group(1)
            isf = ftypes.get(op) in ("f64", "f32") or "f64" in op or "f32" in op
            if isf and "verif" not in cur:
                bad.append(cur)
    notes.append(f"guard kfmod: MIR dumped and scanned in {time.time()-t0:.0f}s, float Rem left in: {sorted(set(bad)) or 'none'}")
    if bad:
        return "float Rem remains in " + ", ".join(sorted(set(bad)))
    return None
