#!/usr/bin/env python3
"""verify a sub-agent's seeded change in a scratch worktree and file it under /verif/seeded/<name>/.
usage: verify_seed.py <out_dir_of_mutation> <property ids> <scratch worktree>"""
import json, os, re, shutil, subprocess, sys
src, props, wt = sys.argv[1], sys.argv[2], sys.argv[3]
name = os.path.basename(src.rstrip("/"))
env = dict(os.environ, CARGO_NET_OFFLINE="true")
def run(cmd, **kw):
    p = subprocess.run(cmd, cwd=wt, env=env, capture_output=True, text=True, **kw)
    return p.returncode, p.stdout + p.stderr
def clean():
    run(["git", "checkout", "--", "."])
    shutil.rmtree(os.path.join(wt, "tests"), ignore_errors=True)
clean()
res = {"name": name, "breaks": props.split(","), "ran": []}
demo = os.path.join(src, "demo.rs")
has_demo = os.path.exists(demo)
unit = os.path.join(src, "demo_unit.diff")
if not has_demo and os.path.exists(unit):
    # demonstration is a #[cfg(test)] module added next to a private function
    rc, out = run(["git", "apply", unit])
    rc, out = run(["cargo", "test", "--offline", "--lib"])
    m = re.search(r"test result: (\w+)\. (\d+) passed; (\d+) failed", out) if True else None
    res["demo_on_head"] = "pass" if (m and m.group(1) == "ok") else "FAIL"
    res["ran"].append("git apply demo_unit.diff; cargo test --offline --lib (clean HEAD + demo) -> " + (m.group(0) if m else "build failed"))
    clean()
if has_demo:
    os.makedirs(os.path.join(wt, "tests"), exist_ok=True)
    shutil.copy(demo, os.path.join(wt, "tests", "demo.rs"))
    rc, out = run(["cargo", "test", "--offline", "--test", "demo"])
    res["demo_on_head"] = "pass" if rc == 0 else "FAIL"
    res["ran"].append("cargo test --offline --test demo  (clean HEAD) -> " + res["demo_on_head"])
rc, out = run(["git", "apply", os.path.join(src, "patch.diff")])
if rc != 0:
    print("patch does not apply:", out); clean(); sys.exit(1)
rc, out = run(["cargo", "test", "--offline", "--lib"])
import re
m = re.search(r"test result: (\w+)\. (\d+) passed; (\d+) failed", out)
res["suite_with_patch"] = m.group(0) if m else "build failed: " + out[-300:]
res["ran"].append("cargo test --offline --lib (with patch) -> " + res["suite_with_patch"])
if has_demo:
    rc, out = run(["cargo", "test", "--offline", "--test", "demo"])
    res["demo_with_patch"] = "pass" if rc == 0 else "fail"
    fails = re.findall(r"^test (\S+) \.\.\. FAILED", out, re.M)
    res["demo_failing_tests"] = fails
    res["ran"].append("cargo test --offline --test demo (with patch) -> " + res["demo_with_patch"] + " " + ",".join(fails))
if not has_demo and os.path.exists(unit):
    rc, out = run(["git", "apply", unit])
    rc, out = run(["cargo", "test", "--offline", "--lib"])
    m = re.search(r"test result: (\w+)\. (\d+) passed; (\d+) failed", out)
    res["demo_with_patch"] = "fail" if (m and m.group(1) != "ok") else "pass"
    res["demo_failing_tests"] = re.findall(r"^test (\S+) \.\.\. FAILED", out, re.M)
    res["ran"].append("git apply patch.diff demo_unit.diff; cargo test --offline --lib -> " + (m.group(0) if m else "build failed"))
clean()
ok = res.get("demo_on_head") == "pass" and res.get("demo_with_patch") == "fail" and "66 passed; 0 failed" in res["suite_with_patch"]
res["confirmed"] = ok
notes = open(os.path.join(src, "notes.md")).read() if os.path.exists(os.path.join(src, "notes.md")) else ""
print(json.dumps(res, indent=1))
if ok:
    dst = os.path.join("/verif/seeded", name)
    os.makedirs(dst, exist_ok=True)
    for f in os.listdir(src):
        if os.path.isfile(os.path.join(src, f)):
            shutil.copy(os.path.join(src, f), os.path.join(dst, f))
    meta = {"name": name, "breaks": res["breaks"], "confirmed_by": "tools/verify_seed.py in a scratch worktree of /repo HEAD",
            "what_i_ran": res["ran"], "needs_to_manifest": "see notes.md", "detected_by": None}
    json.dump(meta, open(os.path.join(dst, "meta.json"), "w"), indent=1)
