#!/usr/bin/env python3
"""run the quick check(s) of the property a seeded change breaks against a scratch worktree of
/repo with the change applied; record which harness caught it in seeded/<name>/meta.json.
usage: run_seeded.py [--tier quick|thorough] [--jobs N] name [name ...]"""
import json, os, re, shutil, subprocess, sys, time
V = "/verif"
args = sys.argv[1:]
tier, jobs = "quick", "7"
names = []
i = 0
while i < len(args):
    if args[i] == "--tier": tier = args[i+1]; i += 2
    elif args[i] == "--jobs": jobs = args[i+1]; i += 2
    elif args[i] == "--only": only = args[i+1]; i += 2
    else: names.append(args[i]); i += 1
for name in names:
    d = os.path.join(V, "seeded", name)
    meta = json.load(open(os.path.join(d, "meta.json")))
    wt = f"/tmp/mutrun/{name}"
    shutil.rmtree(wt, ignore_errors=True)
    subprocess.run(["git", "-C", "/repo", "worktree", "prune"])
    subprocess.check_call(["git", "-C", "/repo", "worktree", "add", "-q", "--detach", wt, "HEAD"])
    try:
        subprocess.check_call(["git", "-C", wt, "apply", os.path.join(d, "patch.diff")])
        results = meta.get("detection", {})
        for prop in meta["breaks"]:
            t0 = time.time()
            env = dict(os.environ, VERIF_REPO=wt, VERIF_JOBS=jobs, VERIF_FIRST_ONLY="1")
            p = subprocess.run([os.path.join(V, "check"), prop, "--tier", tier, "--no-evidence"], cwd=V, env=env,
                               capture_output=True, text=True)
            out = p.stdout + p.stderr
            viol = re.findall(r"VIOLATION property=\S+ replay=\S+\n\s+harness=(\S+) :: (.*)", out)
            inconc = re.findall(r"INCONCLUSIVE property=\S+ harness=(\S+) :: (.*)", out)
            results[f"{prop}:{tier}"] = {"exit": p.returncode, "wall_s": round(time.time() - t0),
                                         "violations": [{"harness": h, "why": w[:200]} for h, w in viol],
                                         "inconclusive": [{"harness": h, "why": w[:160]} for h, w in inconc]}
            open(os.path.join(d, f"check_{prop}_{tier}.log"), "w").write(out[-20000:])
            print(name, prop, tier, "exit", p.returncode, "caught by", [h for h, _ in viol], "inconclusive", [h for h, _ in inconc], flush=True)
        meta["detection"] = results
        caught = sorted({v["harness"] for r in results.values() for v in r["violations"]})
        meta["detected_by"] = caught or None
        json.dump(meta, open(os.path.join(d, "meta.json"), "w"), indent=1)
    finally:
        subprocess.run(["git", "-C", "/repo", "worktree", "remove", "--force", wt])
        shutil.rmtree(wt, ignore_errors=True)
