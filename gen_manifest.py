#!/usr/bin/env python3
"""regenerates MANIFEST.json from the table below (kept in one place so it stays valid)"""
import json, os
V = os.path.dirname(os.path.abspath(__file__))
TECH = "bounded model checking of the compiled MIR with Kani 0.68 / CBMC 6.11 / CaDiCaL (symbolic frames, rows, clock; unwinding assertions on); counterexamples replayed natively"
NOTE = ("trusted: rustc MIR, Kani/CBMC/CaDiCaL for 'holds' verdicts; oracles in harness/root/spec*.rs; listed stubs "
        "(Utc::now fixed instant, model HashMap/BTreeMap, DF/TC pinning stubs justified by lemma harnesses, libm as recording "
        "uninterpreted functions, kfmod for float %); violations are replayed natively against the unmodified crate (dev+release) "
        "before being reported. Loop-level behaviour of read_lines/main/TCP/printing is outside every claim (DESIGN.md section 3).")
CLAIMS = {
 "C01": ("For every 56/112-bit frame content (incl. DF/length mismatches as get_message lets them through) and every row state, "
         "the per-frame step (get_message filters, DF/address readers, DF::from_message, both row-update paths, table step, sweep, "
         "sort, counters) raises none of Kani's default checks (panic, expect, bounds, overflow, div-by-zero) within passing "
         "unwinding bounds. Reading to EOF / exit status / later lines still processed are outside the claim.", "5 C01"),
 "C02": ("get_message accepts a nibble vector iff the frame rule holds (length vs DF, squitter parity), over all 2^56+2^112 contents "
         "(text cleaner replaced by a stub handing over the digits); text-level digit counting for short lines (thorough).", "5 C02"),
 "C03": ("get_icao equals AA / AP xor CRC-24 (long-division oracle) for all contents of the nine formats; table step with a "
         "bounded model map: only the addressed row changes, one row per address.", "5 C03"),
 "C04": ("get_message accepts a DF17/18 (DF11) frame iff its CRC-24 remainder is 0 (upper 17 bits 0), all 2^112 (2^56) contents.", "5 C04"),
 "C05": ("altitude() and the row altitude after DF4/DF20/TC9-18 frames equal the AC13/AC12 oracle for every frame and arbitrary row "
         "(Q=1, all-zero, M=1; Gillham region = open known finding with witness harness).", "5 C05"),
 "C06": ("squawk() and the row squawk after DF5/DF21 equal the identity-code oracle for all frames, arbitrary rows, both paths; "
         "other fields untouched.", "5 C06"),
 "C07": ("callsign: all 64 codes in every character position (adjacent pairs jointly symbolic), category, wake class for all (TC,CA).", "5 C07"),
 "C08": ("pairing guard as a row step with symbolic slot ages (cpr_location stubbed), plus leaf lemmas of the CPR arithmetic "
         "(NL table, wrap functions, zone index, longitude index) against integer oracles, seeded CPR decode slices against an exact-integer encoder, and the haversine data flow with probe-valued libm.", "5 C08"),
 "C09": ("track_and_groundspeed / vertical_rate vs the TC19 oracle for all field values with libm as recording uninterpreted "
         "functions; row values on both paths, first and later frame.", "5 C09"),
 "C10": ("per-register soundness and completeness of the Comm-B decode through Plane::update on arbitrary rows with symbolic "
         "capability / BDS 1,7 flags / -R.", "5 C10"),
 "C11": ("frame lemmas on arbitrary rows: carried parameters take this frame's value, all others are bit-identical, both paths.", "5 C11"),
 "C12": ("every accepted frame of every class refreshes the time stamp (both paths); cleanup sweeps exactly the stale rows, "
         "counter in 1..=11, symbolic ages around delete_after.", "5 C12"),
 "C15": ("sort_printed_planes on 3 symbolic rows per key letter: permutation + monotone key + address order without key.", "5 C15"),
 "C16": ("AppCounters::update_count as a step from an arbitrary counter state (model BTreeMap): exact increment, others untouched, "
         "ascending listing. The -f filter line in read_lines is outside the claim.", "5 C16"),
 "C17": ("icao_to_country and row.reg equal the Annex 10 range-table oracle for all 2^24 addresses; reference blocks disjoint.", "5 C17"),
 "C19": ("-U neutrality as a simulation step per DF/TC class on equal rows; table step + sweep independent of presentation options.", "5 C19"),
}
NA = [
 {"property_id": "C13", "reason": "decided entirely inside read_lines + std BufRead::lines (UTF-8 error ends map_while); that loop is not encodable with Kani/CBMC here (io::Error drop glue, > 20 GB even on one concrete line) - see DESIGN.md 3/7"},
 {"property_id": "C14", "reason": "the subject is core::fmt width/alignment; a single concrete row through format_simple_display does not finish symbolic execution in 20 min, and stubbing formatting removes the subject"},
 {"property_id": "C18", "reason": "TCP sockets, sleep and an infinite reconnect loop: FFI and unbounded control flow that Kani does not model; no unit below connect_and_read_tcp carries the property"},
]
def main():
    have = set()
    import re, glob
    for f in glob.glob(os.path.join(V, "harness", "*", "*.rs")):
        for m in re.finditer(r"// @harness[^\n]*props=([\w,:]+)", open(f).read()):
            have |= {x.split(":")[0] for x in m.group(1).split(",")}
    checks = []
    na = list(NA)
    for pid, (text, ref) in sorted(CLAIMS.items()):
        if pid not in have:
            na.append({"property_id": pid, "reason": "not yet claimed: harnesses under construction"})
            continue
        checks.append({
            "property_id": pid,
            "quick_cmd": f"./check {pid} --tier quick",
            "thorough_cmd": f"./check {pid} --tier thorough",
            "evidence_file": f"/verif/evidence/{pid}.json",
            "replay_cmd_template": f"./check {pid} --replay {{path}}",
            "engine": "kani-cbmc",
            "level_claimed": {"category": "model_checking", "text": text, "design_ref": "DESIGN.md section " + ref},
            "level_note": NOTE,
            "technique": TECH,
        })
    man = {
        "version": 1,
        "setup_cmd": "./setup.sh",
        "hooks": {
            "guard": "none in /repo: harness modules are injected into a run-time snapshot under cfg(kani) / cfg(verif_replay)",
            "enable": "cargo kani (sets cfg(kani)) on the snapshot; RUSTFLAGS='--cfg verif_replay' cargo test for native replay of counterexamples",
            "baseline_off_cmd": "cd /repo && cargo test --workspace --no-fail-fast --offline",
            "source_commits": [],
            "add_only": True,
        },
        "engines": [{"name": "kani-cbmc", "path": "/verif/check", "serves_properties": [c["property_id"] for c in checks],
                     "kind_free_text": "Kani 0.68 -> CBMC 6.11 -> CaDiCaL on the compiled MIR of a snapshot of /repo's working tree; native replay of counterexamples"}],
        "checks": checks,
        "not_applicable": na,
        "notes": "exit 0 holds / 1 reproduced violation / 2 inconclusive. VERIF_SEED selects family members in the quick tier; VERIF_JOBS sets the worker count.",
    }
    json.dump(man, open(os.path.join(V, "MANIFEST.json"), "w"), indent=1)
    print("claimed:", [c["property_id"] for c in checks], "n/a:", [n["property_id"] for n in na])
main()
