//! C10 Comm-B data are shown only when valid, advertised and correctly decoded.
//! DF20/DF21 frame (all 2^112 contents) on an arbitrary row with arbitrary recorded CA and
//! BDS 1,7 flags, -R symbolic, through `Plane::update` (the only path that decodes MB).
//! Callsign construction is stubbed by a marker (BDS 2,0 content is C07's subject).
use super::super::*;
use super::rows::*;
use crate::verif::rt::*;
use crate::verif::spec::*;

struct Ctx {
    m: [u32; 28],
    relaxed: bool,
    before: Plane,
    after: Plane,
    gate: bool,
}

fn run(df: u32) -> Option<Ctx> {
    let m = frame28();
    pin_df(&m, df);
    let relaxed = any_bool();
    let mut p = any_row();
    let (dfx, icao) = accepted(&m)?;
    p.icao = icao;
    let before = clone_row(&p);
    apply(&mut p, &m, dfx, false, relaxed);
    let gate = relaxed || before.capability.0 > 3;
    Some(Ctx { m, relaxed, before, after: p, gate })
}

/// no register earlier in the precedence claims the frame (the implementation's own predicates)
fn none_before_40(m: &[u32]) -> bool {
    bds(m) == (0, 0) && is_bds_1_7(m).is_none()
}

macro_rules! commb {
    ($name:ident, $df:expr, $body:ident) => {
        #[cfg_attr(kani, kani::proof)]
        #[cfg_attr(kani, kani::unwind(90))]
        #[cfg_attr(kani, kani::stub(chrono::Utc::now, crate::verif::rt::stub_now))]
        #[cfg_attr(kani, kani::stub(crate::decoder::get_downlink_format, super::rows::stub_get_df))]
        #[cfg_attr(kani, kani::stub(crate::decoder::adsb::icao::get_icao, super::rows::stub_get_icao))]
        #[cfg_attr(kani, kani::stub(crate::decoder::adsb::ais::ais, super::rows::stub_ais))]
        #[cfg_attr(verif_replay, test)]
        fn $name() {
            if let Some(c) = run($df) {
                $body(&c);
            }
        }
    };
}

// ---- BDS 4,0 ---------------------------------------------------------------------------------
fn body40(c: &Ctx) {
    let o = bds40(&c.m);
    let (a, b) = (&c.before, &c.after);
    let adv = c.relaxed || a.capability.1.bds40;
    let changed = a.selected_altitude != b.selected_altitude
        || a.barometric_pressure_setting != b.barometric_pressure_setting
        || a.target_altitude_source != b.target_altitude_source;
    vcover!(changed && !c.relaxed, "BDS 4,0 decoded through capability + advertisement");
    vcover!(changed && c.relaxed && !a.capability.1.bds40, "BDS 4,0 decoded through -R");
    if changed {
        vassert!(c.gate, "C10: BDS 4,0 data changed although no capability >= 4 is recorded and -R is off");
        vassert!(adv, "C10: BDS 4,0 data changed although BDS 1,7 never advertised the register and -R is off");
        vassert!(o.status_ok, "C10: BDS 4,0 data changed although a status bit of the register is clear");
        vassert!(o.reserved_ok, "C10: BDS 4,0 data changed although reserved bits are set");
        vassert!(b.selected_altitude == Some(o.mcp_alt) || b.selected_altitude == Some(o.fms_alt), "C10: selected altitude is not the Doc 9871 decoding (16 ft LSB)");
        vassert!(b.barometric_pressure_setting == Some(o.baro), "C10: pressure setting is not 800 + field/10 mb");
    }
    let complete = c.gate && adv && o.status_ok && o.reserved_ok && o.mcp_field != 0 && o.fms_field != 0 && o.baro_field != 0 && none_before_40(&c.m);
    vcover!(complete, "a complete BDS 4,0 register exists");
    if complete {
        vassert!(b.selected_altitude == Some(o.mcp_alt), "C10: a valid, advertised BDS 4,0 register is not decoded (selected altitude)");
        vassert!(b.barometric_pressure_setting == Some(o.baro), "C10: a valid, advertised BDS 4,0 register is not decoded (pressure setting)");
    }
}
// @harness name=c10_bds40_df20 props=C10 tier=quick cap=2400 mem=24
// BDS 4,0 soundness + completeness, DF20, all MB contents, arbitrary row / CA / BDS1,7 flags / -R
commb!(c10_bds40_df20, 20, body40);
// @harness name=c10_bds40_df21 props=C10 tier=thorough cap=2400 mem=24
// BDS 4,0 soundness + completeness, DF21
commb!(c10_bds40_df21, 21, body40);

// ---- BDS 5,0 ---------------------------------------------------------------------------------
fn body50(c: &Ctx) {
    let o = bds50(&c.m);
    let (a, b) = (&c.before, &c.after);
    let adv = c.relaxed || a.capability.1.bds50;
    let changed = a.roll_angle != b.roll_angle
        || a.track != b.track
        || a.track_angle_rate != b.track_angle_rate
        || a.grspeed != b.grspeed
        || a.true_airspeed != b.true_airspeed;
    vcover!(changed && !c.relaxed, "BDS 5,0 decoded through capability + advertisement");
    if changed {
        vassert!(c.gate, "C10: BDS 5,0 data changed although no capability >= 4 is recorded and -R is off");
        vassert!(adv, "C10: BDS 5,0 data changed although BDS 1,7 never advertised the register and -R is off");
        vassert!(o.status_ok, "C10: BDS 5,0 data changed although a status bit of the register is clear");
        vassert!(b.roll_angle.is_some() && trunc_ok(o.roll_num, 256, b.roll_angle.unwrap_or(0) as i64), "C10: roll angle is not the Doc 9871 decoding (45/256 deg LSB, two's complement)");
        vassert!(b.track.is_some() && trunc_ok(o.track_num, 512, b.track.unwrap_or(0) as i64), "C10: true track is not the Doc 9871 decoding (90/512 deg LSB)");
        vassert!(b.track_angle_rate.is_some() && trunc_ok(o.rate_num, 32, b.track_angle_rate.unwrap_or(0) as i64), "C10: track angle rate is not the Doc 9871 decoding (8/256 deg/s LSB, two's complement)");
        vassert!(b.grspeed == Some(o.gs) && b.true_airspeed == Some(o.tas), "C10: ground speed / TAS are not the Doc 9871 decoding (2 kt LSB)");
    }
    let plausible = o.roll_num >= -50 * 256 && o.roll_num <= 50 * 256 && o.gs <= 600 && o.tas <= 500 && (o.gs as i64 - o.tas as i64).abs() < 200;
    let complete = c.gate && adv && o.status_ok && o.fields_nonzero && plausible && none_before_40(&c.m) && is_bds_4_0(&c.m).is_none();
    vcover!(complete && o.rate_num < 0, "a complete BDS 5,0 register of a left turn exists");
    vcover!(complete && o.roll_num < 0 && o.rate_num > 0, "a complete BDS 5,0 register with negative roll exists");
    if complete {
        vassert!(b.grspeed == Some(o.gs) && b.true_airspeed == Some(o.tas), "C10: a valid, advertised BDS 5,0 register is not decoded (speeds)");
        vassert!(b.roll_angle.is_some() && trunc_ok(o.roll_num, 256, b.roll_angle.unwrap_or(0) as i64), "C10: a valid, advertised BDS 5,0 register is not decoded (roll)");
        vassert!(b.track_angle_rate.is_some() && trunc_ok(o.rate_num, 32, b.track_angle_rate.unwrap_or(0) as i64), "C10: a valid, advertised BDS 5,0 register is not decoded (track angle rate)");
        vassert!(b.track.is_some() && trunc_ok(o.track_num, 512, b.track.unwrap_or(0) as i64), "C10: a valid, advertised BDS 5,0 register is not decoded (true track)");
    }
}
// @harness name=c10_bds50_df21 props=C10,C11 tier=quick cap=2400 mem=24
// BDS 5,0 soundness + completeness (turns in either direction), DF21
commb!(c10_bds50_df21, 21, body50);
// @harness name=c10_bds50_df20 props=C10 tier=thorough cap=2400 mem=24
// BDS 5,0 soundness + completeness, DF20
commb!(c10_bds50_df20, 20, body50);

// ---- BDS 6,0 ---------------------------------------------------------------------------------
fn body60(c: &Ctx) {
    let o = bds60(&c.m);
    let (a, b) = (&c.before, &c.after);
    let adv = c.relaxed || a.capability.1.bds60;
    let changed = a.heading != b.heading || a.indicated_airspeed != b.indicated_airspeed || !ofeq(a.mach_number, b.mach_number) || a.vrate != b.vrate;
    vcover!(changed && !c.relaxed, "BDS 6,0 decoded through capability + advertisement");
    let mach = o.mach_field as f64 * 0.004;
    if changed {
        vassert!(c.gate, "C10: BDS 6,0 data changed although no capability >= 4 is recorded and -R is off");
        vassert!(adv, "C10: BDS 6,0 data changed although BDS 1,7 never advertised the register and -R is off");
        vassert!(o.status_ok, "C10: BDS 6,0 data changed although a status bit of the register is clear");
        vassert!(b.heading.is_some() && trunc_ok(o.hdg_num, 512, b.heading.unwrap_or(0) as i64), "C10: magnetic heading is not the Doc 9871 decoding (90/512 deg LSB)");
        vassert!(b.indicated_airspeed == Some(o.ias), "C10: IAS is not the Doc 9871 decoding (1 kt LSB)");
        vassert!(ofeq(b.mach_number, Some(mach)), "C10: Mach is not the Doc 9871 decoding (0.004 LSB)");
        vassert!(b.vrate == Some(o.baro_rate) || b.vrate == Some(o.ivv) || b.vrate.is_none(), "C10: vertical rate is neither the barometric nor the inertial rate of the register (32 ft/min LSB, two's complement)");
    }
    let plausible = mach <= 1.0 && o.baro_rate >= -6000 && o.baro_rate <= 6000 && o.ivv >= -6000 && o.ivv <= 6000;
    let complete = c.gate && adv && o.status_ok && o.fields_nonzero && plausible && none_before_40(&c.m) && is_bds_4_0(&c.m).is_none() && is_bds_5_0(&c.m).is_none();
    vcover!(complete && o.baro_rate < 0, "a complete BDS 6,0 register of a descent exists");
    vcover!(complete && o.baro_rate > 0, "a complete BDS 6,0 register of a climb exists");
    if complete {
        vassert!(b.indicated_airspeed == Some(o.ias) && ofeq(b.mach_number, Some(mach)), "C10: a valid, advertised BDS 6,0 register is not decoded (IAS/Mach)");
        vassert!(b.heading.is_some() && trunc_ok(o.hdg_num, 512, b.heading.unwrap_or(0) as i64), "C10: a valid, advertised BDS 6,0 register is not decoded (heading)");
        vassert!(b.vrate == Some(o.baro_rate), "C10: a valid, advertised BDS 6,0 register is not decoded (vertical rate)");
    }
}
// @harness name=c10_bds60_df20 props=C10 tier=quick cap=2400 mem=24
// BDS 6,0 soundness + completeness (climbs and descents), DF20
commb!(c10_bds60_df20, 20, body60);
// @harness name=c10_bds60_df21 props=C10 tier=thorough cap=2400 mem=24
// BDS 6,0 soundness + completeness, DF21
commb!(c10_bds60_df21, 21, body60);

// ---- BDS 1,7 and 3,0, gate for everything ------------------------------------------------------
fn body17(c: &Ctx) {
    let o = bds17(&c.m);
    let (a, b) = (&c.before, &c.after);
    let k = &b.capability.1;
    let changed = a.capability.1.flags != k.flags
        || a.capability.1.bds20 != k.bds20
        || a.capability.1.bds40 != k.bds40
        || a.capability.1.bds50 != k.bds50
        || a.capability.1.bds60 != k.bds60
        || a.capability.1.bds44 != k.bds44;
    vcover!(changed, "a capability report is recorded");
    if changed {
        vassert!(c.gate, "C10: BDS 1,7 flags changed although no capability >= 4 is recorded and -R is off");
        vassert!(o.valid && bds(&c.m) == (0, 0), "C10: BDS 1,7 flags changed by a reply that is not a valid BDS 1,7 report");
    }
    if c.gate && o.valid && bds(&c.m) == (0, 0) {
        vassert!(k.bds40 == o.bds40 && k.bds50 == o.bds50 && k.bds60 == o.bds60 && k.bds20 == o.bds20, "C10: recorded BDS 1,7 flags differ from the report (MB bits 7, 9, 16, 24)");
    }
    // threat flag (BDS 3,0) and, with the gate closed, every Comm-B parameter
    if a.threat_encounter != b.threat_encounter {
        vassert!(c.gate && bds(&c.m) == (3, 0), "C10: ACAS threat flag changed by a reply that is not an admitted BDS 3,0");
    }
    if !c.gate {
        vcover!(true, "gate closed");
        assert_unchanged_except(a, b, F_ALT | F_ALT_SRC | F_SQUAWK | F_BOOK);
    }
}
// @harness name=c10_bds17_gate_df21 props=C10,C11,C01 tier=quick cap=2400 mem=24
// BDS 1,7 record, BDS 3,0 flag, and "gate closed => only altitude/squawk change", DF21
commb!(c10_bds17_gate_df21, 21, body17);
// @harness name=c10_bds17_gate_df20 props=C10,C11:thorough tier=thorough cap=2400 mem=24
// same, DF20
commb!(c10_bds17_gate_df20, 20, body17);

// ---- register validators / decoders at field level (no row): cheap, small counterexample traces ------
// @harness props=C10 tier=quick cap=900
// is_bds_6_0 on every MB field: a result implies all five status bits and values = Doc 9871 decoding;
// a complete plausible register is recognised
#[cfg_attr(kani, kani::proof)]
#[cfg_attr(kani, kani::unwind(40))]
#[cfg_attr(verif_replay, test)]
fn c10_field_bds60() {
    let m = frame28();
    let o = bds60(&m);
    let mach = o.mach_field as f64 * 0.004;
    let got = is_bds_6_0(&m);
    let plausible = mach <= 1.0 && o.baro_rate >= -6000 && o.baro_rate <= 6000 && o.ivv >= -6000 && o.ivv <= 6000;
    vcover!(got.is_some() && o.baro_rate < 0, "a descent is recognised");
    vcover!(got.is_some() && o.ias > 511, "an IAS above 511 kt is recognised");
    if let Some(r) = &got {
        vassert!(o.status_ok, "C10: BDS 6,0 recognised although a status bit is clear");
        vassert!(r.indicated_airspeed == Some(o.ias), "C10: IAS is not the Doc 9871 decoding (1 kt LSB)");
        vassert!(ofeq(r.mach_number, Some(mach)), "C10: Mach is not the Doc 9871 decoding (0.004 LSB)");
        vassert!(r.magnetic_heading.is_some() && trunc_ok(o.hdg_num, 512, r.magnetic_heading.unwrap_or(0) as i64), "C10: magnetic heading is not the Doc 9871 decoding");
        vassert!(r.barometric_altitude_rate.is_none() || r.barometric_altitude_rate == Some(o.baro_rate), "C10: barometric altitude rate is not the Doc 9871 decoding");
        vassert!(r.internal_vertical_velocity.is_none() || r.internal_vertical_velocity == Some(o.ivv), "C10: inertial vertical velocity is not the Doc 9871 decoding");
    }
    if o.status_ok && o.fields_nonzero && plausible {
        vassert!(got.is_some(), "C10: a complete, plausible BDS 6,0 register is not recognised");
    }
}

// @harness props=C10 tier=quick cap=900
// is_bds_5_0 on every MB field
#[cfg_attr(kani, kani::proof)]
#[cfg_attr(kani, kani::unwind(40))]
#[cfg_attr(verif_replay, test)]
fn c10_field_bds50() {
    let m = frame28();
    let o = bds50(&m);
    let got = is_bds_5_0(&m);
    let plausible = o.roll_num >= -50 * 256 && o.roll_num <= 50 * 256 && o.gs <= 600 && o.tas <= 500 && (o.gs as i64 - o.tas as i64).abs() < 200;
    vcover!(got.is_some() && o.rate_num < 0, "a left turn is recognised");
    vcover!(got.is_some() && o.roll_num < 0, "a negative roll is recognised");
    if let Some(r) = &got {
        vassert!(o.status_ok, "C10: BDS 5,0 recognised although a status bit is clear");
        vassert!(r.ground_speed == Some(o.gs) && r.true_airspeed == Some(o.tas), "C10: ground speed / TAS are not the Doc 9871 decoding (2 kt LSB)");
        vassert!(r.roll_angle.is_some() && trunc_ok(o.roll_num, 256, r.roll_angle.unwrap_or(0) as i64), "C10: roll angle is not the Doc 9871 decoding");
        vassert!(r.track_angle.is_some() && trunc_ok(o.track_num, 512, r.track_angle.unwrap_or(0) as i64), "C10: true track is not the Doc 9871 decoding");
        vassert!(r.track_angle_rate.is_some() && trunc_ok(o.rate_num, 32, r.track_angle_rate.unwrap_or(0) as i64), "C10: track angle rate is not the Doc 9871 decoding");
    }
    if o.status_ok && o.fields_nonzero && plausible {
        vassert!(got.is_some(), "C10: a complete, plausible BDS 5,0 register is not recognised");
    }
}

// @harness props=C10 tier=quick cap=900
// is_bds_4_0 on every MB field
#[cfg_attr(kani, kani::proof)]
#[cfg_attr(kani, kani::unwind(40))]
#[cfg_attr(verif_replay, test)]
fn c10_field_bds40() {
    let m = frame28();
    let o = bds40(&m);
    let got = is_bds_4_0(&m);
    vcover!(got.is_some(), "a BDS 4,0 register is recognised");
    vcover!(got.is_none() && o.status_ok && !o.reserved_ok, "reserved bits reject a register");
    if let Some(r) = &got {
        vassert!(o.status_ok, "C10: BDS 4,0 recognised although a status bit is clear");
        vassert!(o.reserved_ok, "C10: BDS 4,0 recognised although reserved bits (MB 40-47, 52-53) are set");
        vassert!(r.mcp_selected_altitude == Some(o.mcp_alt), "C10: MCP selected altitude is not the Doc 9871 decoding (16 ft LSB)");
        vassert!(r.fms_selected_altitude == Some(o.fms_alt), "C10: FMS selected altitude is not the Doc 9871 decoding (16 ft LSB)");
        vassert!(r.barometric_pressure_setting == Some(o.baro), "C10: pressure setting is not 800 + field/10 mb");
    }
    if o.status_ok && o.reserved_ok && o.mcp_field != 0 && o.fms_field != 0 && o.baro_field != 0 {
        vassert!(got.is_some(), "C10: a complete BDS 4,0 register is not recognised");
    }
}
