//! C09 Ground speed, track and vertical rate follow the TC19 velocity encoding.
//! libm (`atan2`, `sqrt`, `powi`) is replaced under Kani by *recording uninterpreted functions*:
//! each remembers its arguments and returns a value the harness drew beforehand (constrained only
//! by the function's range contract). The harness then checks the data flow -- which values go
//! into atan2/sqrt and how their results become track / ground speed -- for all field values.
//! libm's numeric results are trusted (and exercised natively in replay, where no stub exists).
use super::super::*;
use super::rows::*;
use crate::verif::rt::*;
use crate::verif::spec::*;

pub static mut ATAN2_RET: f64 = 0.0;
pub static mut ATAN2_ARGS: (f64, f64) = (0.0, 0.0);
pub static mut ATAN2_CALLS: u32 = 0;
pub static mut SQRT_RET: f64 = 0.0;
pub static mut SQRT_ARG: f64 = 0.0;
pub static mut SQRT_CALLS: u32 = 0;
pub static mut POWI_RET: [f64; 2] = [0.0; 2];
pub static mut POWI_ARGS: [(f64, i32); 2] = [(0.0, 0); 2];
pub static mut POWI_CALLS: usize = 0;

pub fn stub_atan2(y: f64, x: f64) -> f64 {
    unsafe {
        ATAN2_CALLS += 1;
        ATAN2_ARGS = (y, x);
        ATAN2_RET
    }
}
pub fn stub_sqrt(x: f64) -> f64 {
    unsafe {
        SQRT_CALLS += 1;
        SQRT_ARG = x;
        SQRT_RET
    }
}
pub fn stub_powi(x: f64, n: i32) -> f64 {
    unsafe {
        let i = if POWI_CALLS < 2 { POWI_CALLS } else { 1 };
        POWI_ARGS[i] = (x, n);
        POWI_CALLS += 1;
        POWI_RET[i]
    }
}

/// draw the values the uninterpreted functions will return (range contracts only)
pub fn draw_libm() {
    let a = any_f64();
    assume(a >= -3.141592653589793 && a <= 3.141592653589793);
    let s = any_f64();
    assume(s >= 0.0 && s <= 1.0e6);
    let p0 = any_f64();
    let p1 = any_f64();
    assume(p0 >= 0.0 && p0 <= 1.1e6 && p1 >= 0.0 && p1 <= 1.1e6);
    unsafe {
        ATAN2_RET = a;
        SQRT_RET = s;
        POWI_RET = [p0, p1];
    }
}

/// keep the uninterpreted sqrt within the true function's elementary bounds
/// max(|a|,|b|) <= sqrt(a^2+b^2) <= |a|+|b|, so that a counterexample (e.g. "ground speed 0") is one the
/// real libm also produces and replays natively
pub fn assume_sqrt_bounds(m: &[u32]) {
    #[cfg(kani)]
    if let (Some(e), Some(n)) = (tc19_vew(m), tc19_vns(m)) {
        let (a, b) = (e.abs() as f64, n.abs() as f64);
        let lo = if a > b { a } else { b };
        let s = unsafe { SQRT_RET };
        assume(s >= lo && s <= a + b);
    }
}

/// (track, ground speed) the property demands for this frame; `None` = no value
pub fn expect_velocity(m: &[u32], supersonic: bool) -> (Option<u32>, Option<(u32, u32)>) {
    let (vew, vns) = (tc19_vew(m), tc19_vns(m));
    let (Some(vew), Some(vns)) = (vew, vns) else { return (None, None) };
    #[cfg(kani)]
    let (s, a) = unsafe { (SQRT_RET, ATAN2_RET) };
    #[cfg(not(kani))]
    let (s, a) = {
        let (e, n) = (vew as f64, vns as f64);
        ((e * e + n * n).sqrt(), e.atan2(n))
    };
    let d = a.to_degrees().floor() as i64;
    let t = ((d + 360) % 360) as u32;
    // ground speed: floor(sqrt); supersonic: x4, anything within 4 kt of 4*sqrt is accepted
    let gs = if supersonic {
        let lo = (4.0 * s - 4.0).max(0.0).ceil() as u32;
        let hi = (4.0 * s + 4.0).floor() as u32;
        (lo, hi)
    } else {
        let f = s.floor() as u32;
        (f, f)
    };
    (Some(t), Some(gs))
}
pub fn gs_ok(want: Option<(u32, u32)>, got: Option<u32>) -> bool {
    match (want, got) {
        (None, None) => true,
        (Some((lo, hi)), Some(g)) => g >= lo && g <= hi,
        _ => false,
    }
}

// @harness props=C09 tier=quick cap=1200 needs=kfmod
// field level, every DF17 TC19 frame x {subsonic, supersonic}: atan2 receives (Vew, Vns), sqrt
// receives Vew^2+Vns^2, track = floor(deg(atan2)) in [0,360), speed = floor(sqrt) (x4); a component
// field of 0 gives no value
#[cfg_attr(kani, kani::proof)]
#[cfg_attr(kani, kani::unwind(33))]
#[cfg_attr(kani, kani::stub(f64::atan2, stub_atan2))]
#[cfg_attr(kani, kani::stub(f64::sqrt, stub_sqrt))]
#[cfg_attr(kani, kani::stub(f64::powi, stub_powi))]
#[cfg_attr(verif_replay, test)]
fn c09_field_velocity() {
    let m = frame28();
    assume(bits(&m, 1, 5) == 17 && bits(&m, 33, 37) == 19);
    let supersonic = any_bool();
    draw_libm();
    assume_sqrt_bounds(&m);
    let (track, gs) = track_and_groundspeed(&m, supersonic);
    let (wt, wg) = expect_velocity(&m, supersonic);
    vcover!(wt == Some(0) && tc19_vew(&m) == Some(0), "due north");
    vcover!(wt == Some(359), "track 359");
    vcover!(tc19_vew(&m).is_none() && tc19_vns(&m).is_some(), "east-west component not available");
    vcover!(tc19_vew(&m) == Some(-1022) && tc19_vns(&m) == Some(1022), "extreme components");
    vassert!(track == wt, "C09: track is not floor(atan2(Vew,Vns)) in [0,360) / not blank for a zero component");
    vassert!(gs_ok(wg, gs), "C09: ground speed is not floor(sqrt(Vew^2+Vns^2)) (x4 supersonic) / not blank for a zero component");
    #[cfg(kani)]
    unsafe {
        if let (Some(e), Some(n)) = (tc19_vew(&m), tc19_vns(&m)) {
            vassert!(ATAN2_CALLS == 1 && ATAN2_ARGS.0 == e as f64 && ATAN2_ARGS.1 == n as f64, "C09: atan2 is not called with (Vew, Vns)");
            vassert!(POWI_CALLS == 2 && POWI_ARGS[0].1 == 2 && POWI_ARGS[1].1 == 2, "C09: squares are not taken with powi(2)");
            let (a, b) = (POWI_ARGS[0].0, POWI_ARGS[1].0);
            vassert!((a == e as f64 && b == n as f64) || (a == n as f64 && b == e as f64), "C09: the squared values are not the two components");
            vassert!(SQRT_CALLS == 1 && SQRT_ARG == POWI_RET[0] + POWI_RET[1], "C09: sqrt is not taken of the sum of the squares");
        }
    }
}

// @harness props=C09 tier=quick cap=600
// field level, every DF17 TC19 frame: vertical rate = +-64*(field-1), field 0 = no value
#[cfg_attr(kani, kani::proof)]
#[cfg_attr(kani, kani::unwind(33))]
#[cfg_attr(verif_replay, test)]
fn c09_field_vrate() {
    let m = frame28();
    assume(bits(&m, 1, 5) == 17 && bits(&m, 33, 37) == 19);
    let got = vertical_rate(&m);
    let want = tc19_vrate(&m);
    vcover!(want == Some(0), "level flight (field 1)");
    vcover!(want.is_none(), "no vertical rate information (field 0)");
    vcover!(want == Some(-32640), "steepest descent");
    vassert!(got == want, "C09: vertical rate is not +-64*(field-1) / not blank for field 0");
}

macro_rules! row_tc19 {
    ($name:ident, $upd:expr, $st:expr) => {
        row_tc19!($name, $upd, $st, true);
    };
    ($name:ident, $upd:expr, $st:expr, $cmp:expr) => {
        #[cfg_attr(kani, kani::proof)]
        #[cfg_attr(kani, kani::unwind(33))]
        #[cfg_attr(kani, kani::stub(chrono::Utc::now, crate::verif::rt::stub_now))]
        #[cfg_attr(kani, kani::stub(crate::decoder::get_downlink_format, super::rows::stub_get_df))]
        #[cfg_attr(kani, kani::stub(crate::decoder::adsb::icao::get_icao, super::rows::stub_get_icao))]
        #[cfg_attr(kani, kani::stub(crate::decoder::utils::get_message_type, super::rows::stub_get_tc))]
        #[cfg_attr(kani, kani::stub(crate::decoder::adsb::ais::ais, super::rows::stub_ais))]
        #[cfg_attr(kani, kani::stub(f64::atan2, stub_atan2))]
        #[cfg_attr(kani, kani::stub(f64::sqrt, stub_sqrt))]
        #[cfg_attr(kani, kani::stub(f64::powi, stub_powi))]
        #[cfg_attr(verif_replay, test)]
        fn $name() {
            let m = frame28();
            pin_df(&m, 17);
            pin_tc(&m, 19);
            // the subtype is pinned like DF/TC (one instance per subtype: the default path with both
            // subtypes in one query takes > 15 min)
            pin_st(&m, $st);
            let st: u32 = $st;
            let relaxed = any_bool();
            draw_libm();
            assume_sqrt_bounds(&m);
            let mut p = any_row();
            let Some((df, icao)) = accepted(&m) else { return };
            p.icao = icao;
            let before = clone_row(&p);
            apply(&mut p, &m, df, $upd, relaxed);
            let (wt, wg) = expect_velocity(&m, st == 2);
            let wv = tc19_vrate(&m);
            vcover!(wt.is_some() && before.grspeed.is_none(), "first velocity");
            vcover!(wv == Some(-64) && before.vrate == Some(640), "rate change");
            vcover!(wv.is_none() && before.vrate.is_some(), "rate not available on a row that has one");
            vcover!(wv == Some(0) && before.vrate == Some(1280), "levelling off");
            // C09: "a component or rate field of 0 ... yields no value for that quantity. The same values result on
            // the first and on later frames": a later frame must blank exactly as the creating frame does
            vassert!(p.track == wt, "C09: row track is not the value (or blank for 'no information') of the velocity squitter just applied");
            vassert!(gs_ok(wg, p.grspeed), "C09: row ground speed is not the value (or blank for 'no information') of the velocity squitter just applied");
            vassert!(p.vrate == wv, "C09: row vertical rate is not the value (or blank for 'no information') of the velocity squitter just applied");
            if $cmp {
                assert_unchanged_except(&before, &p, F_VRATE | F_VRATE_SRC | F_ALT_GNSS | F_TRACK | F_GS | F_TRACK_SRC | F_BOOK | F_CAP0);
            }
        }
    };
}
// @harness name=c09_row_tc19_default_st1 props=C09,C19 tier=quick cap=1500 needs=kfmod
// row step, DEFAULT path, subtype 1 (subsonic): any such squitter on an arbitrary row, -R symbolic: the row's
// ground speed, track and vertical rate are the values of this frame (blank for 'no information').
// (values only; "everything else untouched" for this path is c09_row_tc19_default_st1_full, thorough)
row_tc19!(c09_row_tc19_default_st1, false, 1, false);
// @harness name=c09_row_tc19_default_st1_full props=C09,C11,C19 tier=thorough cap=2400 needs=kfmod
// as above, plus every other field group bit-identical
row_tc19!(c09_row_tc19_default_st1_full, false, 1, true);
// @harness name=c09_row_tc19_update_st2 props=C09,C11,C19:thorough tier=quick cap=1500 needs=kfmod
// row step, -U path, subtype 2 (supersonic, x4), every other field group bit-identical
row_tc19!(c09_row_tc19_update_st2, true, 2);
// @harness name=c09_row_tc19_default_st2 props=C09,C11:thorough,C19:thorough tier=thorough cap=1800 needs=kfmod
// row step, DEFAULT path, subtype 2
row_tc19!(c09_row_tc19_default_st2, false, 2);
// @harness name=c09_row_tc19_update_st1 props=C09,C11:thorough,C19:thorough tier=thorough cap=1800 needs=kfmod
// row step, -U path, subtype 1
row_tc19!(c09_row_tc19_update_st1, true, 1);

// @harness props=C09 tier=quick cap=1500 needs=kfmod
// the TC19 squitter that creates a row: same values
#[cfg_attr(kani, kani::proof)]
#[cfg_attr(kani, kani::unwind(33))]
#[cfg_attr(kani, kani::stub(chrono::Utc::now, crate::verif::rt::stub_now))]
#[cfg_attr(kani, kani::stub(crate::decoder::get_downlink_format, super::rows::stub_get_df))]
#[cfg_attr(kani, kani::stub(crate::decoder::adsb::icao::get_icao, super::rows::stub_get_icao))]
#[cfg_attr(kani, kani::stub(crate::decoder::utils::get_message_type, super::rows::stub_get_tc))]
#[cfg_attr(kani, kani::stub(f64::atan2, stub_atan2))]
#[cfg_attr(kani, kani::stub(f64::sqrt, stub_sqrt))]
#[cfg_attr(kani, kani::stub(f64::powi, stub_powi))]
#[cfg_attr(kani, kani::stub(crate::decoder::adsb::ais::ais, super::rows::stub_ais))]
#[cfg_attr(verif_replay, test)]
fn c09_create_tc19() {
    let m = frame28();
    pin_df(&m, 17);
    pin_tc(&m, 19);
    let st = bits(&m, 38, 40) as u32;
    assume(st == 1 || st == 2);
    draw_libm();
    assume_sqrt_bounds(&m);
    let Some((df, icao)) = accepted(&m) else { return };
    let p = create(&m, df, icao);
    let (wt, wg) = expect_velocity(&m, st == 2);
    let wv = tc19_vrate(&m);
    vcover!(wt.is_some() && wv.is_some(), "complete velocity on creation");
    vassert!(p.track == wt && gs_ok(wg, p.grspeed), "C09: created row's track / ground speed are not the values of the velocity squitter");
    vassert!(p.vrate == wv, "C09: created row's vertical rate is not the value of the velocity squitter");
}
