//! C17 Registration country follows the ICAO address allocation for all 2^24 addresses
use super::super::*;
use crate::verif::rt::*;
use crate::verif::spec_country::*;

// @harness props=C17 tier=quick cap=400
// domain: every 24-bit address; oracle: explicit Annex 10 range table (189 blocks, binary search)
#[cfg_attr(kani, kani::proof)]
#[cfg_attr(kani, kani::unwind(10))]
#[cfg_attr(verif_replay, test)]
fn c17_country_all_addresses() {
    let icao = any_below(1 << 24);
    let got = pack(icao_to_country(icao).1);
    let want = country_ref_packed(icao);
    vcover!(want == UNALLOCATED, "an unallocated address exists");
    vcover!(want == pack("IE"), "an Irish address exists");
    vcover!(want == pack("ICAO2"), "an ICAO block address exists");
    vassert!(got == want, "C17: country code differs from the Annex 10 block of the address");
}

// @harness props=C17 tier=quick cap=400
// the row a frame creates shows that code: Plane::from_downlink on an address-only downlink, every address
#[cfg_attr(kani, kani::proof)]
#[cfg_attr(kani, kani::unwind(10))]
#[cfg_attr(kani, kani::stub(chrono::Utc::now, crate::verif::rt::stub_now))]
#[cfg_attr(verif_replay, test)]
fn c17_row_reg() {
    let icao = any_below(1 << 24);
    let dl = DF::SRT(Srt::new());
    let p = Plane::from_downlink(&dl, icao);
    vcover!(pack(p.reg) == pack("US"), "a US row exists");
    vassert!(p.icao == icao, "C17: row address");
    vassert!(pack(p.reg) == country_ref_packed(icao), "C17: row.reg differs from the Annex 10 block of the address");
}

// @harness props=C17 tier=quick cap=300
// the reference blocks are sorted, pairwise disjoint and inside the 24-bit space ("no address
// belongs to two blocks"): decided for two arbitrary block indices i < j
#[cfg_attr(kani, kani::proof)]
#[cfg_attr(verif_replay, test)]
fn c17_ref_disjoint() {
    let i = any_below(NBLOCKS as u32) as usize;
    let j = any_below(NBLOCKS as u32) as usize;
    assume(i < j);
    let (a, b, _) = BLOCKS[i];
    let (c, d, _) = BLOCKS[j];
    vcover!(j == NBLOCKS - 1, "last block reachable");
    vassert!(a <= b && c <= d && d < (1 << 24), "C17: reference block malformed");
    vassert!(b < c, "C17: reference blocks overlap or are unsorted");
}

// @harness props=C17 tier=quick cap=300
// the binary search used by the oracle finds the block for EVERY address inside any block i
// (so the oracle itself is total on the table), and returns none for addresses in the gaps
#[cfg_attr(kani, kani::proof)]
#[cfg_attr(kani, kani::unwind(10))]
#[cfg_attr(verif_replay, test)]
fn c17_ref_search_total() {
    let i = any_below(NBLOCKS as u32) as usize;
    let x = any_below(1 << 24);
    let (a, b, _) = BLOCKS[i];
    vcover!(x >= a && x <= b, "inside");
    vcover!(x > b, "above");
    if x >= a && x <= b {
        vassert!(block_index(x) == i, "C17: oracle search misses a block");
    } else {
        vassert!(block_index(x) != i, "C17: oracle search returns a block not containing the address");
    }
}
