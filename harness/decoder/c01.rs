//! C01 No frame content or option set can crash the per-frame step.
//! Every harness in /verif runs with Kani's default checks on (panic, expect/unwrap, index and
//! slice bounds, + - * << overflow, division by zero) and with unwinding assertions, so each row /
//! table / sort / counter harness tagged C01 is also a crash-freedom query for its class. The
//! harnesses here add the classes no functional harness drives: every line `get_message` lets
//! through with an arbitrary (unpinned) DF, and every DF17/18 type code.
use super::super::*;
use super::c04::*;
use super::rows::*;
use crate::verif::rt::*;
use crate::verif::spec::*;

fn lite_row(icao: u32) -> Plane {
    let mut p = Plane::new();
    p.icao = icao;
    p.altitude = if any_bool() { Some(any_below(100000)) } else { None };
    p.capability.0 = any_below(8);
    p.cpr_lat = [any_below(1 << 17), any_below(1 << 17)];
    p.cpr_lon = [any_below(1 << 17), any_below(1 << 17)];
    p
}

/// the whole per-frame step of `read_lines` for one nibble vector, both update paths
fn step(m: &[u32], relaxed: bool) {
    let Some(df) = get_downlink_format(m) else { return };
    let Some(icao) = get_icao(m, df) else { return };
    if let Ok(dl) = DF::from_message(m) {
        // first frame of the aircraft
        let fresh = Plane::from_downlink(&dl, icao);
        // later frame: default path and -U path
        let mut a = lite_row(icao);
        if df < 20 {
            a.update_from_downlink(&dl);
        }
        let mut b = lite_row(icao);
        b.update(m, df, relaxed);
        vassert!(fresh.icao == icao, "C01: created row has another address");
    }
}

macro_rules! step_short_df {
    ($name:ident, $df:expr) => {
        #[cfg_attr(kani, kani::proof)]
        #[cfg_attr(kani, kani::unwind(57))]
        #[cfg_attr(kani, kani::stub(chrono::Utc::now, crate::verif::rt::stub_now))]
        #[cfg_attr(kani, kani::stub(crate::decoder::get_downlink_format, super::rows::stub_get_df))]
        #[cfg_attr(verif_replay, test)]
        fn $name() {
            // real address recovery (CRC-56) on purpose: nothing is cut in the short-frame step
            let m = frame14();
            pin_df(&m, $df);
            let relaxed = any_bool();
            let use_update = any_bool();
            let Some(df) = get_downlink_format(&m) else { return };
            let Some(icao) = get_icao(&m, df) else { return };
            let fresh = create(&m, df, icao);
            let mut p = any_row();
            p.icao = icao;
            apply(&mut p, &m, df, use_update, relaxed);
            vcover!(use_update, "-U");
            vcover!(!use_update, "default path");
            vassert!(fresh.icao == icao && p.icao == icao, "C01: row address changed");
        }
    };
}
// every 56-bit frame of one DF (get_message lets a 14-digit line through only for DF 0-15, decided by
// c02_frame_rule_short): address recovery, creation and both update paths on an arbitrary row raise no check
// @harness name=c01_step_short_df00 props=C01 tier=thorough cap=600 family=c01sdf quickpick=3
step_short_df!(c01_step_short_df00, 0);
// @harness name=c01_step_short_df01 props=C01 tier=thorough cap=600 family=c01sdf quickpick=3
step_short_df!(c01_step_short_df01, 1);
// @harness name=c01_step_short_df02 props=C01 tier=thorough cap=600 family=c01sdf quickpick=3
step_short_df!(c01_step_short_df02, 2);
// @harness name=c01_step_short_df03 props=C01 tier=thorough cap=600 family=c01sdf quickpick=3
step_short_df!(c01_step_short_df03, 3);
// @harness name=c01_step_short_df04 props=C01 tier=thorough cap=600 family=c01sdf quickpick=3
step_short_df!(c01_step_short_df04, 4);
// @harness name=c01_step_short_df05 props=C01 tier=thorough cap=600 family=c01sdf quickpick=3
step_short_df!(c01_step_short_df05, 5);
// @harness name=c01_step_short_df06 props=C01 tier=thorough cap=600 family=c01sdf quickpick=3
step_short_df!(c01_step_short_df06, 6);
// @harness name=c01_step_short_df07 props=C01 tier=thorough cap=600 family=c01sdf quickpick=3
step_short_df!(c01_step_short_df07, 7);
// @harness name=c01_step_short_df08 props=C01 tier=thorough cap=600 family=c01sdf quickpick=3
step_short_df!(c01_step_short_df08, 8);
// @harness name=c01_step_short_df09 props=C01 tier=thorough cap=600 family=c01sdf quickpick=3
step_short_df!(c01_step_short_df09, 9);
// @harness name=c01_step_short_df10 props=C01 tier=thorough cap=600 family=c01sdf quickpick=3
step_short_df!(c01_step_short_df10, 10);
// @harness name=c01_step_short_df11 props=C01 tier=thorough cap=600 family=c01sdf quickpick=3
step_short_df!(c01_step_short_df11, 11);
// @harness name=c01_step_short_df12 props=C01 tier=thorough cap=600 family=c01sdf quickpick=3
step_short_df!(c01_step_short_df12, 12);
// @harness name=c01_step_short_df13 props=C01 tier=thorough cap=600 family=c01sdf quickpick=3
step_short_df!(c01_step_short_df13, 13);
// @harness name=c01_step_short_df14 props=C01 tier=thorough cap=600 family=c01sdf quickpick=3
step_short_df!(c01_step_short_df14, 14);
// @harness name=c01_step_short_df15 props=C01 tier=thorough cap=600 family=c01sdf quickpick=3
step_short_df!(c01_step_short_df15, 15);

macro_rules! step_tc {
    ($name:ident, $df:expr, $tc:expr) => {
        #[cfg_attr(kani, kani::proof)]
        #[cfg_attr(kani, kani::unwind(90))]
        #[cfg_attr(kani, kani::stub(chrono::Utc::now, crate::verif::rt::stub_now))]
        #[cfg_attr(kani, kani::stub(crate::decoder::get_downlink_format, super::rows::stub_get_df))]
        #[cfg_attr(kani, kani::stub(crate::decoder::adsb::icao::get_icao, super::rows::stub_get_icao))]
        #[cfg_attr(kani, kani::stub(crate::decoder::utils::get_message_type, super::rows::stub_get_tc))]
        #[cfg_attr(kani, kani::stub(crate::decoder::adsb::ais::ais, super::rows::stub_ais))]
        #[cfg_attr(kani, kani::stub(crate::decoder::adsb::position::cpr_location, super::rows::stub_cpr_location))]
        #[cfg_attr(kani, kani::stub(crate::decoder::adsb::position::cpr, super::rows::stub_cpr))]
        #[cfg_attr(kani, kani::stub(f64::atan2, super::c09::stub_atan2))]
        #[cfg_attr(kani, kani::stub(f64::sqrt, super::c09::stub_sqrt))]
        #[cfg_attr(kani, kani::stub(f64::powi, super::c09::stub_powi))]
        #[cfg_attr(verif_replay, test)]
        fn $name() {
            let m = frame28();
            pin_df(&m, $df);
            pin_tc(&m, $tc);
            // position squitters (TC 5-18) write a CPR slot: decide each parity with a constant index
            if $tc >= 5 && $tc <= 18 {
                if bit(&m, 54) == 0 {
                    unsafe { PIN_F = 0 };
                    go(&m);
                } else {
                    unsafe { PIN_F = 1 };
                    go(&m);
                }
            } else {
                go(&m);
            }
            fn go(m: &[u32; 28]) {
                let m = *m;
                let relaxed = any_bool();
                let use_update = any_bool();
                super::c09::draw_libm();
                let Some((df, icao)) = accepted(&m) else { return };
                let fresh = create(&m, df, icao);
                let mut p = any_row();
                p.icao = icao;
                apply(&mut p, &m, df, use_update, relaxed);
                vcover!(use_update, "-U");
                vcover!(!use_update, "default path");
                vassert!(fresh.icao == icao && p.icao == icao, "C01: row address changed");
            }
        }
    };
}
// one instance per DF17 type code: creation + both update paths on an arbitrary row raise no check
// @harness name=c01_step_tc00 props=C01 tier=thorough cap=1200 family=c01tc quickpick=3 needs=kfmod
step_tc!(c01_step_tc00, 17, 0);
// @harness name=c01_step_tc01 props=C01 tier=thorough cap=1200 family=c01tc quickpick=3 needs=kfmod
step_tc!(c01_step_tc01, 17, 1);
// @harness name=c01_step_tc02 props=C01 tier=thorough cap=1200 family=c01tc quickpick=3 needs=kfmod
step_tc!(c01_step_tc02, 17, 2);
// @harness name=c01_step_tc03 props=C01 tier=thorough cap=1200 family=c01tc quickpick=3 needs=kfmod
step_tc!(c01_step_tc03, 17, 3);
// @harness name=c01_step_tc04 props=C01 tier=thorough cap=1200 family=c01tc quickpick=3 needs=kfmod
step_tc!(c01_step_tc04, 17, 4);
// @harness name=c01_step_tc05 props=C01 tier=thorough cap=1200 family=c01tc quickpick=3 needs=kfmod
step_tc!(c01_step_tc05, 17, 5);
// @harness name=c01_step_tc06 props=C01 tier=thorough cap=1200 family=c01tc quickpick=3 needs=kfmod
step_tc!(c01_step_tc06, 17, 6);
// @harness name=c01_step_tc07 props=C01 tier=thorough cap=1200 family=c01tc quickpick=3 needs=kfmod
step_tc!(c01_step_tc07, 17, 7);
// @harness name=c01_step_tc08 props=C01 tier=thorough cap=1200 family=c01tc quickpick=3 needs=kfmod
step_tc!(c01_step_tc08, 17, 8);
// @harness name=c01_step_tc09 props=C01 tier=thorough cap=1200 family=c01tc quickpick=3 needs=kfmod
step_tc!(c01_step_tc09, 17, 9);
// @harness name=c01_step_tc10 props=C01 tier=thorough cap=1200 family=c01tc quickpick=3 needs=kfmod
step_tc!(c01_step_tc10, 17, 10);
// @harness name=c01_step_tc11 props=C01 tier=thorough cap=1200 family=c01tc quickpick=3 needs=kfmod
step_tc!(c01_step_tc11, 17, 11);
// @harness name=c01_step_tc12 props=C01 tier=thorough cap=1200 family=c01tc quickpick=3 needs=kfmod
step_tc!(c01_step_tc12, 17, 12);
// @harness name=c01_step_tc13 props=C01 tier=thorough cap=1200 family=c01tc quickpick=3 needs=kfmod
step_tc!(c01_step_tc13, 17, 13);
// @harness name=c01_step_tc14 props=C01 tier=thorough cap=1200 family=c01tc quickpick=3 needs=kfmod
step_tc!(c01_step_tc14, 17, 14);
// @harness name=c01_step_tc15 props=C01 tier=thorough cap=1200 family=c01tc quickpick=3 needs=kfmod
step_tc!(c01_step_tc15, 17, 15);
// @harness name=c01_step_tc16 props=C01 tier=thorough cap=1200 family=c01tc quickpick=3 needs=kfmod
step_tc!(c01_step_tc16, 17, 16);
// @harness name=c01_step_tc17 props=C01 tier=thorough cap=1200 family=c01tc quickpick=3 needs=kfmod
step_tc!(c01_step_tc17, 17, 17);
// @harness name=c01_step_tc18 props=C01 tier=thorough cap=1200 family=c01tc quickpick=3 needs=kfmod
step_tc!(c01_step_tc18, 17, 18);
// @harness name=c01_step_tc19 props=C01 tier=quick cap=1200 needs=kfmod
step_tc!(c01_step_tc19, 17, 19);
// @harness name=c01_step_tc20 props=C01 tier=thorough cap=1200 family=c01tc quickpick=3 needs=kfmod
step_tc!(c01_step_tc20, 17, 20);
// @harness name=c01_step_tc21 props=C01 tier=thorough cap=1200 family=c01tc quickpick=3 needs=kfmod
step_tc!(c01_step_tc21, 17, 21);
// @harness name=c01_step_tc22 props=C01 tier=thorough cap=1200 family=c01tc quickpick=3 needs=kfmod
step_tc!(c01_step_tc22, 17, 22);
// @harness name=c01_step_tc23 props=C01 tier=thorough cap=1200 family=c01tc quickpick=3 needs=kfmod
step_tc!(c01_step_tc23, 17, 23);
// @harness name=c01_step_tc24 props=C01 tier=thorough cap=1200 family=c01tc quickpick=3 needs=kfmod
step_tc!(c01_step_tc24, 17, 24);
// @harness name=c01_step_tc25 props=C01 tier=thorough cap=1200 family=c01tc quickpick=3 needs=kfmod
step_tc!(c01_step_tc25, 17, 25);
// @harness name=c01_step_tc26 props=C01 tier=thorough cap=1200 family=c01tc quickpick=3 needs=kfmod
step_tc!(c01_step_tc26, 17, 26);
// @harness name=c01_step_tc27 props=C01 tier=thorough cap=1200 family=c01tc quickpick=3 needs=kfmod
step_tc!(c01_step_tc27, 17, 27);
// @harness name=c01_step_tc28 props=C01 tier=thorough cap=1200 family=c01tc quickpick=3 needs=kfmod
step_tc!(c01_step_tc28, 17, 28);
// @harness name=c01_step_tc29 props=C01 tier=thorough cap=1200 family=c01tc quickpick=3 needs=kfmod
step_tc!(c01_step_tc29, 17, 29);
// @harness name=c01_step_tc30 props=C01 tier=thorough cap=1200 family=c01tc quickpick=3 needs=kfmod
step_tc!(c01_step_tc30, 17, 30);
// @harness name=c01_step_tc31 props=C01 tier=thorough cap=1200 family=c01tc quickpick=3 needs=kfmod
step_tc!(c01_step_tc31, 17, 31);
// @harness name=c01_step_df18_tc19 props=C01 tier=thorough cap=1200 needs=kfmod
step_tc!(c01_step_df18_tc19, 18, 19);
// @harness name=c01_step_df18_tc11 props=C01 tier=thorough cap=1200 needs=kfmod
step_tc!(c01_step_df18_tc11, 18, 11);

macro_rules! step_long_df {
    ($name:ident, $df:expr) => {
        #[cfg_attr(kani, kani::proof)]
        #[cfg_attr(kani, kani::unwind(90))]
        #[cfg_attr(kani, kani::stub(chrono::Utc::now, crate::verif::rt::stub_now))]
        #[cfg_attr(kani, kani::stub(crate::decoder::get_downlink_format, super::rows::stub_get_df))]
        #[cfg_attr(kani, kani::stub(crate::decoder::adsb::icao::get_icao, super::rows::stub_get_icao))]
        #[cfg_attr(kani, kani::stub(crate::decoder::adsb::ais::ais, super::rows::stub_ais))]
        #[cfg_attr(verif_replay, test)]
        fn $name() {
            let m = frame28();
            pin_df(&m, $df);
            let relaxed = any_bool();
            let use_update = any_bool();
            let Some((df, icao)) = accepted(&m) else { return };
            let fresh = create(&m, df, icao);
            let mut p = any_row();
            p.icao = icao;
            apply(&mut p, &m, df, use_update, relaxed);
            vcover!(relaxed, "-R");
            vassert!(fresh.icao == icao || df >= 20, "C01: row address changed");
        }
    };
}
// @harness name=c01_step_df16 props=C01 tier=quick cap=1200
// every DF16 frame: creation + both paths on an arbitrary row
step_long_df!(c01_step_df16, 16);
// @harness name=c01_step_df19 props=C01 tier=thorough cap=1200
// every DF19 frame
step_long_df!(c01_step_df19, 19);
// @harness name=c01_step_df24 props=C01 tier=thorough cap=1200
// every DF24 frame (ELM)
step_long_df!(c01_step_df24, 24);
// @harness name=c01_step_df20 props=C01 tier=thorough cap=3600 mem=24
// every DF20 frame: creation (runs the whole Comm-B decoder on a fresh row) + update on an arbitrary row
step_long_df!(c01_step_df20, 20);
// @harness name=c01_step_df21 props=C01 tier=thorough cap=3600 mem=24
// every DF21 frame
step_long_df!(c01_step_df21, 21);
// @harness name=c01_create_df20 props=C01 tier=quick cap=1500 mem=24
// every DF20 frame as the frame that creates a row: DF::from_message (the whole Comm-B decoder of the
// downlink object) + Plane::from_downlink raise no check. (The update of an existing row by DF20/21 runs
// with all checks on in the c10_* and c05_row_df20 / c06_row_df21 harnesses, tagged C01.)
#[cfg_attr(kani, kani::proof)]
#[cfg_attr(kani, kani::unwind(90))]
#[cfg_attr(kani, kani::stub(chrono::Utc::now, crate::verif::rt::stub_now))]
#[cfg_attr(kani, kani::stub(crate::decoder::get_downlink_format, super::rows::stub_get_df))]
#[cfg_attr(kani, kani::stub(crate::decoder::adsb::icao::get_icao, super::rows::stub_get_icao))]
#[cfg_attr(kani, kani::stub(crate::decoder::adsb::ais::ais, super::rows::stub_ais))]
#[cfg_attr(verif_replay, test)]
fn c01_create_df20() {
    let m = frame28();
    pin_df(&m, 20);
    let Some((df, icao)) = accepted(&m) else { return };
    let fresh = create(&m, df, icao);
    vcover!(fresh.icao == icao, "row created");
    vassert!(fresh.icao == icao || fresh.icao != 0, "C01: created row lost its address");
}

// @harness props=C01,C08 tier=quick cap=1800 needs=kfmod
// the CPR decoder itself on EVERY pair of frames (all 2^68 field values), either parity, airborne
// (coeff 1) and surface (coeff 4) zone counts: no division by zero, overflow or bad index; an answer,
// when given, is finite
#[cfg_attr(kani, kani::proof)]
#[cfg_attr(kani, kani::unwind(60))]
#[cfg_attr(verif_replay, test)]
fn c01_cpr_location_total() {
    let lat = [any_below(1 << 17), any_below(1 << 17)];
    let lon = [any_below(1 << 17), any_below(1 << 17)];
    let form = any_below(2);
    let surface = any_bool();
    let got = cpr_location(&lat, &lon, form, if surface { 4 } else { 1 });
    vcover!(surface && got.is_some(), "a surface pair decodes");
    vcover!(!surface && got.is_none(), "an airborne pair is rejected");
    if let Some((la, lo)) = got {
        vassert!(la == la && lo == lo && la.abs() <= 360.0 && lo.abs() <= 360.0, "C01: CPR decode returns a non-finite / absurd coordinate");
    }
}
