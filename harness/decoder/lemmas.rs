//! Lemmas that justify class pinning (see rows.rs): the real DF / TC readers return exactly the
//! bit fields the pinning stubs assert.
use super::super::*;
use super::rows::*;
use crate::verif::rt::*;

// @harness props=C01,C02,C03,C04,C05,C06,C07,C08,C09,C10,C11,C12,C19 tier=quick cap=300
// get_downlink_format(m) == Some(bits 1..5) for every 56-bit frame
#[cfg_attr(kani, kani::proof)]
#[cfg_attr(kani, kani::unwind(30))]
#[cfg_attr(verif_replay, test)]
fn lemma_df_is_bits_1_5_short() {
    let m = frame14();
    vcover!(bits(&m, 1, 5) == 17, "DF17 bits on a short frame");
    vassert!(get_downlink_format(&m) == Some(bits(&m, 1, 5) as u32), "lemma: DF reader differs from bits 1-5");
}

// @harness props=C01,C02,C03,C04,C05,C06,C07,C08,C09,C10,C11,C12,C19 tier=quick cap=300
// get_downlink_format(m) == Some(bits 1..5) for every 112-bit frame
#[cfg_attr(kani, kani::proof)]
#[cfg_attr(kani, kani::unwind(30))]
#[cfg_attr(verif_replay, test)]
fn lemma_df_is_bits_1_5_long() {
    let m = frame28();
    vcover!(bits(&m, 1, 5) == 21, "DF21");
    vassert!(get_downlink_format(&m) == Some(bits(&m, 1, 5) as u32), "lemma: DF reader differs from bits 1-5");
}

// @harness props=C01,C05,C07,C08,C09,C11,C12,C19 tier=quick cap=300
// get_message_type(m) == (bits 33..37, bits 38..40) for every 112-bit frame
#[cfg_attr(kani, kani::proof)]
#[cfg_attr(kani, kani::unwind(30))]
#[cfg_attr(verif_replay, test)]
fn lemma_tc_is_bits_33_40() {
    let m = frame28();
    vcover!(bits(&m, 33, 37) == 19, "TC19");
    vassert!(
        get_message_type(&m) == (bits(&m, 33, 37) as u32, bits(&m, 38, 40) as u32),
        "lemma: type-code reader differs from bits 33-37 / 38-40"
    );
}

// @harness props=C01,C05,C08,C11,C12,C19 tier=quick cap=300
// cpr(m) == Some((bit 54, bits 55..71, bits 72..88)) for every 112-bit frame
#[cfg_attr(kani, kani::proof)]
#[cfg_attr(kani, kani::unwind(30))]
#[cfg_attr(verif_replay, test)]
fn lemma_cpr_is_bits_54_88() {
    let m = frame28();
    vcover!(bit(&m, 54) == 1 && bits(&m, 55, 71) == 0x1FFFF, "odd frame, maximal latitude field");
    vassert!(
        cpr(&m) == Some((bit(&m, 54), bits(&m, 55, 71) as u32, bits(&m, 72, 88) as u32)),
        "lemma: CPR field reader differs from F = bit 54, YZ = bits 55-71, XZ = bits 72-88"
    );
}

/// nibbles of a hex string (test vectors)
fn hex28(s: &str) -> [u32; 28] {
    let mut m = [0u32; 28];
    let b = s.as_bytes();
    let mut i = 0;
    while i < 28 {
        m[i] = (b[i] as char).to_digit(16).unwrap();
        i += 1;
    }
    m
}
fn hex14(s: &str) -> [u32; 14] {
    let mut m = [0u32; 14];
    let b = s.as_bytes();
    let mut i = 0;
    while i < 14 {
        m[i] = (b[i] as char).to_digit(16).unwrap();
        i += 1;
    }
    m
}

// @harness props=C03,C04,C05,C06,C07,C09,C10 tier=quick cap=600 native=1
// ORACLE SELF-TEST (run natively, not through the solver: concrete inputs only): the reference oracles of /verif reproduce published / recorded vectors
// (mode-s.org examples and the repository's own pinned test vectors). Concrete inputs only.
#[cfg_attr(kani, kani::proof)]
#[cfg_attr(kani, kani::unwind(120))]
#[cfg_attr(verif_replay, test)]
fn oracle_selftest_vectors() {
    use crate::verif::spec::*;
    // CRC / address (repo test_icao, mode-s.org)
    vassert!(rem112(&hex28("8D40621D58C382D690C8AC2863A7")) == 0, "oracle: CRC of a valid DF17 is not 0");
    vassert!(rem112(&hex28("8D406B902015A678D4D220AA4BDA")) == 0, "oracle: CRC of a valid DF17 is not 0");
    vassert!(address112(&hex28("A0001838300000000000007ADA59"), 20) == 7453696, "oracle: DF20 address");
    vassert!(address112(&hex28("A800120110010080F600001AFEDD"), 21) == 4921598, "oracle: DF21 address");
    vassert!(address56(&hex14("28001A1B1F0706"), 5) == 5023854, "oracle: DF5 address");
    vassert!(address112(&hex28("8D4CA86E58B15398DA1B2834CF37"), 17) == 5023854, "oracle: DF17 AA");
    vassert!(rem56(&hex14("5D484FDEA248F5")) >> 7 == 0, "oracle: DF11 remainder of a valid all-call reply has non-zero upper bits");
    // altitude (mode-s.org: 8D40621D58C382D690C8AC2863A7 -> 38000 ft; DF20 A0001838.. -> AC13)
    vassert!(ac12(&hex28("8D40621D58C382D690C8AC2863A7")) == Alt::Ft(38000), "oracle: AC12 38000 ft");
    vassert!(ac13(&hex28("A8281200200464B3CF7820CD194C")) == Alt::Ft(14300), "oracle: AC13 14300 ft (repo test_alt)");
    vassert!(ac13(&hex28("A020100A10020A80F000004F24AF")) == Alt::Ft(200), "oracle: Gillham C1 B2 B4 = 200 ft");
    vassert!(ac13(&hex14("20000000000000")) == Alt::NoAlt, "oracle: all-zero AC13");
    // squawk (repo test_squawk)
    vassert!(id13_squawk(&hex28("A8000F8FC6500030A40000318121")) == 7666, "oracle: squawk 7666");
    vassert!(id13_squawk(&hex28("A8000EABEA2A4F34E02400EE982C")) == 7724, "oracle: squawk 7724");
    vassert!(id13_squawk(&hex14("2800189A8E0F41")) == 5611, "oracle: squawk 5611");
    vassert!(id13_squawk(&hex14("2800189F714598")) == 5617, "oracle: squawk 5617");
    // callsign (repo test_ais)
    let (cs, n) = callsign(&hex28("8D406F7C250815F2CB4560C85DCA"));
    vassert!(n == 7 && cs[0] == b'B' && cs[1] == b'A' && cs[2] == b'W' && cs[3] == b'2' && cs[4] == b'2' && cs[5] == b'4' && cs[6] == b'U', "oracle: callsign BAW224U");
    let (cs, n) = callsign(&hex28("8DAAAA9225041331DF3820CAC7A4"));
    vassert!(n == 6 && cs[0] == b'A' && cs[1] == b'A' && cs[2] == b'L' && cs[3] == b'1' && cs[4] == b'7' && cs[5] == b'3', "oracle: callsign AAL173");
    // velocity (mode-s.org 8D485020994409940838175B284F: Vew -9, Vns -160, vrate -832)
    let v = hex28("8D485020994409940838175B284F");
    vassert!(tc19_vew(&v) == Some(-8) && tc19_vns(&v) == Some(-159) && tc19_vrate(&v) == Some(-832), "oracle: TC19 components");
    // BDS 4,0 (repo test vectors: MCP 23008 ft, FMS 37008 ft)
    let r = bds40(&hex28("A80004BAACF6427180000078379E"));
    vassert!(r.mcp_alt == 23008 && r.fms_alt == 37008 && r.status_ok, "oracle: BDS 4,0 selected altitudes");
    // BDS 5,0 (mode-s.org A000139381951536E024D4CCF6B5: roll 2.1, track 114.258, gs 438, rate 0.125, tas 424)
    let r = bds50(&hex28("A000139381951536E024D4CCF6B5"));
    vassert!(r.status_ok && r.gs == 438 && r.tas == 424 && r.roll_num / 256 == 2 && r.track_num / 512 == 114 && r.rate_num == 4, "oracle: BDS 5,0 example");
    // BDS 6,0 (mode-s.org A00004128F39F91A7E27C46ADC21: hdg 42.715, IAS 252, Mach 0.42, baro -1920, ivv -1920)
    let r = bds60(&hex28("A00004128F39F91A7E27C46ADC21"));
    vassert!(r.status_ok && r.ias == 252 && r.mach_field == 105 && r.baro_rate == -1920 && r.ivv == -1920 && r.hdg_num / 512 == 42, "oracle: BDS 6,0 example");
    vcover!(true, "reached");
    vcover!(r.status_ok, "reached 2");
}
