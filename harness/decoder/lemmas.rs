//! Lemmas that justify class pinning (see rows.rs): the real DF / TC readers return exactly the
//! bit fields the pinning stubs assert.
use super::super::*;
use super::rows::*;
use crate::verif::rt::*;

// @harness props=C01,C02,C03,C04,C05,C06,C07,C08,C09,C10,C11,C12,C19 tier=quick cap=300
// get_downlink_format(m) == Some(bits 1..5) for every 56-bit frame
#[cfg_attr(kani, kani::proof)]
#[cfg_attr(kani, kani::unwind(30))]
#[cfg_attr(verif_replay, test)]
fn lemma_df_is_bits_1_5_short() {
    let m = frame14();
    vcover!(bits(&m, 1, 5) == 17, "DF17 bits on a short frame");
    vassert!(get_downlink_format(&m) == Some(bits(&m, 1, 5) as u32), "lemma: DF reader differs from bits 1-5");
}

// @harness props=C01,C02,C03,C04,C05,C06,C07,C08,C09,C10,C11,C12,C19 tier=quick cap=300
// get_downlink_format(m) == Some(bits 1..5) for every 112-bit frame
#[cfg_attr(kani, kani::proof)]
#[cfg_attr(kani, kani::unwind(30))]
#[cfg_attr(verif_replay, test)]
fn lemma_df_is_bits_1_5_long() {
    let m = frame28();
    vcover!(bits(&m, 1, 5) == 21, "DF21");
    vassert!(get_downlink_format(&m) == Some(bits(&m, 1, 5) as u32), "lemma: DF reader differs from bits 1-5");
}

// @harness props=C01,C05,C07,C08,C09,C11,C12,C19 tier=quick cap=300
// get_message_type(m) == (bits 33..37, bits 38..40) for every 112-bit frame
#[cfg_attr(kani, kani::proof)]
#[cfg_attr(kani, kani::unwind(30))]
#[cfg_attr(verif_replay, test)]
fn lemma_tc_is_bits_33_40() {
    let m = frame28();
    vcover!(bits(&m, 33, 37) == 19, "TC19");
    vassert!(
        get_message_type(&m) == (bits(&m, 33, 37) as u32, bits(&m, 38, 40) as u32),
        "lemma: type-code reader differs from bits 33-37 / 38-40"
    );
}
