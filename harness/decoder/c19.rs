//! C19 (a) -U is decode-neutral, as a simulation step: two equal rows receive the same frame whose
//! carried values are valid, one through the default path, one through `Plane::update`; the listed
//! parameters are equal afterwards. Induction over the history gives all histories.
use super::super::*;
use super::c09::*;
use super::rows::*;
use crate::verif::kf::*;
use crate::verif::rt::*;
use crate::verif::spec::*;

fn listed_equal(a: &Plane, b: &Plane) {
    vassert!(ais_eq(&a.ais, &b.ais), "C19: callsign differs with and without -U");
    vassert!(a.altitude == b.altitude, "C19: altitude differs with and without -U");
    vassert!(a.squawk == b.squawk, "C19: squawk differs with and without -U");
    vassert!(feq(a.lat, b.lat) && feq(a.lon, b.lon), "C19: position differs with and without -U");
    vassert!(a.grspeed == b.grspeed, "C19: ground speed differs with and without -U");
    vassert!(a.track == b.track, "C19: track differs with and without -U");
    vassert!(a.vrate == b.vrate, "C19: vertical rate differs with and without -U");
    vassert!(a.category == b.category, "C19: category differs with and without -U");
    vassert!(a.surveillance_status == b.surveillance_status, "C19: surveillance status differs with and without -U");
    // state the next step depends on (so that the step is inductive)
    vassert!(a.cpr_lat == b.cpr_lat && a.cpr_lon == b.cpr_lon && a.cpr_time[0] == b.cpr_time[0] && a.cpr_time[1] == b.cpr_time[1], "C19: stored CPR frames / their receive times differ with and without -U");
    vassert!(a.timestamp == b.timestamp, "C19: last-contact time differs with and without -U");
}

fn valid_short(m: &[u32], df: u32) -> bool {
    match df {
        4 => match ac13(m) {
            Alt::Ft(v) => v >= 0 && !(C05_GILLHAM_OPEN && bit(m, 28) == 0),
            _ => false,
        },
        _ => true,
    }
}

macro_rules! neutral_short {
    ($name:ident, $df:expr) => {
        #[cfg_attr(kani, kani::proof)]
        #[cfg_attr(kani, kani::unwind(33))]
        #[cfg_attr(kani, kani::stub(chrono::Utc::now, crate::verif::rt::stub_now))]
        #[cfg_attr(kani, kani::stub(crate::decoder::get_downlink_format, super::rows::stub_get_df))]
        #[cfg_attr(kani, kani::stub(crate::decoder::adsb::icao::get_icao, super::rows::stub_get_icao))]
        #[cfg_attr(verif_replay, test)]
        fn $name() {
            let m = frame14();
            pin_df(&m, $df);
            assume(valid_short(&m, $df));
            let relaxed = any_bool();
            let mut a = any_row();
            let Some((df, icao)) = accepted(&m) else { return };
            a.icao = icao;
            let mut b = clone_row(&a);
            apply(&mut a, &m, df, false, relaxed);
            apply(&mut b, &m, df, true, relaxed);
            vcover!(relaxed, "-R on");
            vcover!(!relaxed, "-R off");
            listed_equal(&a, &b);
        }
    };
}
// @harness name=c19_neutral_df4 props=C19 tier=quick cap=900
// DF4 with a valid altitude: default path vs -U on equal arbitrary rows
neutral_short!(c19_neutral_df4, 4);
// @harness name=c19_neutral_df5 props=C19 tier=quick cap=900
// DF5
neutral_short!(c19_neutral_df5, 5);
// @harness name=c19_neutral_df11 props=C19 tier=thorough cap=900
// DF11
neutral_short!(c19_neutral_df11, 11);

fn valid_long(m: &[u32], tc: u32) -> bool {
    match tc {
        9..=18 => match ac12(m) {
            Alt::Ft(v) => v >= 0 && !(C05_GILLHAM_OPEN && bit(m, 48) == 0),
            _ => false,
        },
        19 => {
            let st = bits(m, 38, 40);
            (st == 1 || st == 2) && tc19_vew(m).is_some() && tc19_vns(m).is_some() && tc19_vrate(m).is_some()
        }
        _ => true,
    }
}

macro_rules! neutral_long {
    ($name:ident, $tc:expr) => {
        #[cfg_attr(kani, kani::proof)]
        #[cfg_attr(kani, kani::unwind(33))]
        #[cfg_attr(kani, kani::stub(chrono::Utc::now, crate::verif::rt::stub_now))]
        #[cfg_attr(kani, kani::stub(crate::decoder::get_downlink_format, super::rows::stub_get_df))]
        #[cfg_attr(kani, kani::stub(crate::decoder::adsb::icao::get_icao, super::rows::stub_get_icao))]
        #[cfg_attr(kani, kani::stub(crate::decoder::utils::get_message_type, super::rows::stub_get_tc))]
        #[cfg_attr(kani, kani::stub(crate::decoder::adsb::position::cpr_location, super::rows::stub_cpr_location))]
        #[cfg_attr(kani, kani::stub(crate::decoder::adsb::position::cpr, super::rows::stub_cpr))]
        #[cfg_attr(kani, kani::stub(crate::decoder::adsb::ais::ais, super::rows::stub_ais))]
        #[cfg_attr(kani, kani::stub(f64::atan2, super::c09::stub_atan2))]
        #[cfg_attr(kani, kani::stub(f64::sqrt, super::c09::stub_sqrt))]
        #[cfg_attr(kani, kani::stub(f64::powi, super::c09::stub_powi))]
        #[cfg_attr(verif_replay, test)]
        fn $name() {
            let m = frame28();
            pin_df(&m, 17);
            pin_tc(&m, $tc);
            // position squitters (TC 5-18) write a CPR slot: decide each parity with a constant index
            if $tc >= 5 && $tc <= 18 {
                if bit(&m, 54) == 0 {
                    unsafe { PIN_F = 0 };
                    go(&m);
                } else {
                    unsafe { PIN_F = 1 };
                    go(&m);
                }
            } else {
                go(&m);
            }
            fn go(m: &[u32; 28]) {
                let m = *m;
                assume(valid_long(&m, $tc));
                let relaxed = any_bool();
                draw_libm();
                let some = any_bool();
                let (la, lo) = (any_f64(), any_f64());
                assume(la >= -90.0 && la <= 90.0 && lo >= -180.0 && lo <= 180.0);
                unsafe { CPRLOC_RET = if some { Some((la, lo)) } else { None } };
                let mut a = any_row();
                let Some((df, icao)) = accepted(&m) else { return };
                a.icao = icao;
                let mut b = clone_row(&a);
                apply(&mut a, &m, df, false, relaxed);
                apply(&mut b, &m, df, true, relaxed);
                vcover!(relaxed, "-R on");
                vcover!(!relaxed, "-R off");
                listed_equal(&a, &b);
            }
        }
    };
}
macro_rules! neutral_parity {
    ($name:ident, $tc:expr, $f:expr) => {
        #[cfg_attr(kani, kani::proof)]
        #[cfg_attr(kani, kani::unwind(33))]
        #[cfg_attr(kani, kani::stub(chrono::Utc::now, crate::verif::rt::stub_now))]
        #[cfg_attr(kani, kani::stub(crate::decoder::get_downlink_format, super::rows::stub_get_df))]
        #[cfg_attr(kani, kani::stub(crate::decoder::adsb::icao::get_icao, super::rows::stub_get_icao))]
        #[cfg_attr(kani, kani::stub(crate::decoder::utils::get_message_type, super::rows::stub_get_tc))]
        #[cfg_attr(kani, kani::stub(crate::decoder::adsb::position::cpr_location, super::rows::stub_cpr_location))]
        #[cfg_attr(kani, kani::stub(crate::decoder::adsb::position::cpr, super::rows::stub_cpr))]
        #[cfg_attr(kani, kani::stub(crate::decoder::adsb::ais::ais, super::rows::stub_ais))]
        #[cfg_attr(kani, kani::stub(f64::atan2, super::c09::stub_atan2))]
        #[cfg_attr(kani, kani::stub(f64::sqrt, super::c09::stub_sqrt))]
        #[cfg_attr(kani, kani::stub(f64::powi, super::c09::stub_powi))]
        #[cfg_attr(verif_replay, test)]
        fn $name() {
            let m = frame28();
            pin_df(&m, 17);
            pin_tc(&m, $tc);
            pin_f(&m, $f);
            go(&m);
            fn go(m: &[u32; 28]) {
                let m = *m;
                assume(valid_long(&m, $tc));
                let relaxed = any_bool();
                draw_libm();
                let some = any_bool();
                let (la, lo) = (any_f64(), any_f64());
                assume(la >= -90.0 && la <= 90.0 && lo >= -180.0 && lo <= 180.0);
                unsafe { CPRLOC_RET = if some { Some((la, lo)) } else { None } };
                let mut a = any_row();
                let Some((df, icao)) = accepted(&m) else { return };
                a.icao = icao;
                let mut b = clone_row(&a);
                apply(&mut a, &m, df, false, relaxed);
                apply(&mut b, &m, df, true, relaxed);
                vcover!(relaxed, "-R on");
                vcover!(!relaxed, "-R off");
                listed_equal(&a, &b);
            }
        }
    };
}
// @harness name=c19_neutral_tc4 props=C19 tier=quick cap=1200
// DF17 TC4 identification (callsign construction stubbed by a marker on both sides)
neutral_long!(c19_neutral_tc4, 4);
// @harness name=c19_neutral_tc11 props=C19 tier=thorough cap=3600
// DF17 TC11 airborne position with a valid altitude, both parities in one query (position decode stubbed identically on both sides)
neutral_long!(c19_neutral_tc11, 11);
// @harness name=c19_neutral_tc11_even props=C19 tier=quick cap=1500
// DF17 TC11 airborne position with a valid altitude, EVEN frames
neutral_parity!(c19_neutral_tc11_even, 11, 0);
// @harness name=c19_neutral_tc13_odd props=C19 tier=thorough cap=1500
// DF17 TC13 airborne position, ODD frames
neutral_parity!(c19_neutral_tc13_odd, 13, 1);
// @harness name=c19_neutral_tc19 props=C19 tier=thorough cap=3600 needs=kfmod
// DF17 TC19 velocity, all fields carrying information (libm as uninterpreted functions)
neutral_long!(c19_neutral_tc19, 19);
// @harness name=c19_neutral_tc6 props=C19 tier=thorough cap=1500
// DF17 TC6 surface position
neutral_long!(c19_neutral_tc6, 6);
// @harness name=c19_neutral_tc21 props=C19 tier=thorough cap=1200
// DF17 TC21
neutral_long!(c19_neutral_tc21, 21);
// @harness name=c19_neutral_tc31 props=C19 tier=thorough cap=1200
// DF17 TC31
neutral_long!(c19_neutral_tc31, 31);
// @harness name=c19_neutral_tc28 props=C19 tier=thorough cap=1200
// DF17 TC28 (not interpreted)
neutral_long!(c19_neutral_tc28, 28);
