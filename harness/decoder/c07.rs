//! C07 Callsign and emitter category are decoded character-exactly.
//! A fully symbolic 48-bit field exhausts memory (every pushed char has a symbolic UTF-8 width),
//! so the quantifier is taken as the property words it: all 64 codes in each character position.
//! One instance per adjacent pair of positions (p, p+1): the 12 bits of the pair are symbolic
//! (all 4096 combinations incl. omitted characters, and the nibble the two characters share),
//! the other six characters are concrete and derived from VERIF_SEED.
use super::super::*;
use super::rows::*;
use crate::verif::rt::*;
use crate::verif::seed::SEED;
use crate::verif::spec::*;

/// six-bit background codes derived from the seed (mix of letters, digits and omitted codes)
const fn bg(i: u64) -> u32 {
    let mut x = SEED.wrapping_mul(6364136223846793005).wrapping_add(1442695040888963407 + i * 7919);
    x ^= x >> 29;
    x = x.wrapping_mul(0xBF58476D1CE4E5B9);
    x ^= x >> 32;
    let k = (x % 40) as u32;
    // 0..25 letters, 26..35 digits, 36..39 codes that are omitted (space, 0, punctuation)
    if k < 26 { 1 + k } else if k < 36 { 48 + (k - 26) } else if k == 36 { 32 } else if k == 37 { 0 } else if k == 38 { 47 } else { 63 }
}
const BG: [u32; 8] = [bg(0), bg(1), bg(2), bg(3), bg(4), bg(5), bg(6), bg(7)];

/// frame with arbitrary header / tail nibbles, the identification field assembled from `codes`
fn id_frame(codes: [u32; 8]) -> [u32; 28] {
    let mut m = frame28();
    // 48 bits = 12 nibbles (10..=21); three nibbles hold two characters
    let mut k = 0;
    while k < 4 {
        let a = codes[2 * k];
        let b = codes[2 * k + 1];
        m[10 + 3 * k] = (a >> 2) & 0xF;
        m[11 + 3 * k] = ((a & 3) << 2) | ((b >> 4) & 3);
        m[12 + 3 * k] = b & 0xF;
        k += 1;
    }
    m
}
/// background of codes that are all omitted (space, NUL, punctuation): the callsign then consists
/// of at most the two symbolic characters - and is EMPTY when those are omitted too
const BLANK_BG: [u32; 8] = [32, 0, 47, 63, 32, 27, 58, 32];
fn pair_codes_blank(p: usize) -> [u32; 8] {
    let mut c = BLANK_BG;
    c[p] = any_below(64);
    c[p + 1] = any_below(64);
    c
}
fn pair_codes(p: usize) -> [u32; 8] {
    let mut c = BG;
    c[p] = any_below(64);
    c[p + 1] = any_below(64);
    c
}
fn matches_oracle(got: &Option<String>, m: &[u32]) -> bool {
    let (want, n) = callsign(m);
    match got {
        None => false,
        Some(s) => {
            let b = s.as_bytes();
            if b.len() != n {
                return false;
            }
            let mut i = 0;
            while i < n {
                if b[i] != want[i] {
                    return false;
                }
                i += 1;
            }
            true
        }
    }
}

macro_rules! pair_field {
    ($name:ident, $p:expr) => {
        #[cfg_attr(kani, kani::proof)]
        #[cfg_attr(kani, kani::unwind(30))]
        #[cfg_attr(verif_replay, test)]
        fn $name() {
            let codes = pair_codes($p);
            let m = id_frame(codes);
            let got = ais(&m);
            vcover!(codes[$p] == 1 && codes[$p + 1] == 57, "pair 'A','9'");
            vcover!(codes[$p] == 32 && codes[$p + 1] == 26, "pair <omitted>,'Z'");
            vcover!(codes[$p] == 27 || codes[$p] == 47 || codes[$p] == 58, "a code just outside the letter/digit ranges");
            vassert!(matches_oracle(&got, &m), "C07: callsign differs from the eight 6-bit characters (letters, digits, others omitted)");
        }
    };
}
// @harness name=c07_pair_0 props=C07 tier=thorough cap=600 family=c07pair quickpick=7
// positions 0,1 jointly symbolic (4096 combinations), header/tail nibbles symbolic
pair_field!(c07_pair_0, 0);
// @harness name=c07_pair_1 props=C07 tier=thorough cap=600 family=c07pair quickpick=7
// positions 1,2 (straddle a nibble-triple boundary)
pair_field!(c07_pair_1, 1);
// @harness name=c07_pair_2 props=C07 tier=thorough cap=600 family=c07pair quickpick=7
// positions 2,3
pair_field!(c07_pair_2, 2);
// @harness name=c07_pair_3 props=C07 tier=thorough cap=600 family=c07pair quickpick=7
// positions 3,4
pair_field!(c07_pair_3, 3);
// @harness name=c07_pair_4 props=C07 tier=thorough cap=600 family=c07pair quickpick=7
// positions 4,5
pair_field!(c07_pair_4, 4);
// @harness name=c07_pair_5 props=C07 tier=thorough cap=600 family=c07pair quickpick=7
// positions 5,6
pair_field!(c07_pair_5, 5);
// @harness name=c07_pair_6 props=C07 tier=thorough cap=600 family=c07pair quickpick=7
// positions 6,7
pair_field!(c07_pair_6, 6);

/// a light pre-existing row without a callsign (replacing an existing String by one with symbolic
/// content, or merging the Strings of the two update paths, exhausts memory; that a carried callsign
/// REPLACES the old one and touches nothing else is decided with the marker stub in c19_neutral_tc4)
fn ident_row(icao: u32) -> Plane {
    let mut p = Plane::new();
    p.icao = icao;
    p.category = (any_below(32), any_below(8));
    p.capability.0 = any_below(8);
    p.altitude = if any_bool() { Some(any_below(100000)) } else { None };
    p
}

macro_rules! row_ident {
    ($name:ident, $tc:expr, $p:expr, $upd:expr) => {
        row_ident!($name, $tc, $p, $upd, pair_codes);
    };
    ($name:ident, $tc:expr, $p:expr, $upd:expr, $codes:ident) => {
        #[cfg_attr(kani, kani::proof)]
        #[cfg_attr(kani, kani::unwind(30))]
        #[cfg_attr(kani, kani::stub(chrono::Utc::now, crate::verif::rt::stub_now))]
        #[cfg_attr(kani, kani::stub(crate::decoder::get_downlink_format, super::rows::stub_get_df))]
        #[cfg_attr(kani, kani::stub(crate::decoder::adsb::icao::get_icao, super::rows::stub_get_icao))]
        #[cfg_attr(kani, kani::stub(crate::decoder::utils::get_message_type, super::rows::stub_get_tc))]
        #[cfg_attr(verif_replay, test)]
        fn $name() {
            let codes = $codes($p);
            let m = id_frame(codes);
            pin_df(&m, 17);
            pin_tc(&m, $tc);
            let relaxed = any_bool();
            let Some((df, icao)) = accepted(&m) else { return };
            let mut p = ident_row(icao);
            let alt = p.altitude;
            apply(&mut p, &m, df, $upd, relaxed);
            let ca = bits(&m, 38, 40) as u32;
            vcover!(ca == 7, "category 7");
            vcover!(ais_char(codes[$p]) == 0 && ais_char(codes[$p + 1]) == 0, "both symbolic characters omitted");
            vassert!(matches_oracle(&p.ais, &m), "C07: row callsign is not the eight characters of the identification squitter just applied");
            vassert!(p.category == ($tc, ca), "C07: emitter category is not (type code, 3-bit category) of the identification squitter");
            vassert!(p.altitude == alt && p.icao == icao, "C07: an identification squitter changed altitude / address");
        }
    };
}
// NOTE: the same step through the DEFAULT path (Ext built by DF::from_message, then clone_from into the
// row) exhausts 24 GB as soon as the row is not `Plane::new()`. The default path's content is therefore
// decided on the creating frame (c07_create_*: `Plane::from_downlink` = fresh row + the very same
// `update_from_downlink`), and "a later frame behaves like -U" with the marker stub (c19_neutral_tc4).
// @harness name=c07_row_tc4_p5_update props=C07,C11:thorough tier=quick cap=1500
// row step, -U path: DF17 TC4, characters 5,6 symbolic
row_ident!(c07_row_tc4_p5_update, 4, 5, true);
// @harness name=c07_row_tc2_blank_update props=C07,C11:thorough tier=thorough cap=900
// row step, -U path: TC2, blank background, characters 0,1 symbolic
row_ident!(c07_row_tc2_blank_update, 2, 0, true, pair_codes_blank);
// @harness name=c07_row_tc2_p6_update props=C07,C11:thorough tier=thorough cap=900
// row step, -U path: TC2, characters 6,7
row_ident!(c07_row_tc2_p6_update, 2, 6, true);

// @harness props=C07 tier=quick cap=900
// the identification squitter that creates a row (TC4, characters 2,3 symbolic)
#[cfg_attr(kani, kani::proof)]
#[cfg_attr(kani, kani::unwind(30))]
#[cfg_attr(kani, kani::stub(chrono::Utc::now, crate::verif::rt::stub_now))]
#[cfg_attr(kani, kani::stub(crate::decoder::get_downlink_format, super::rows::stub_get_df))]
#[cfg_attr(kani, kani::stub(crate::decoder::adsb::icao::get_icao, super::rows::stub_get_icao))]
#[cfg_attr(kani, kani::stub(crate::decoder::utils::get_message_type, super::rows::stub_get_tc))]
#[cfg_attr(verif_replay, test)]
fn c07_create_tc4() {
    let codes = pair_codes(2);
    let m = id_frame(codes);
    pin_df(&m, 17);
    pin_tc(&m, 4);
    let Some((df, icao)) = accepted(&m) else { return };
    let p = create(&m, df, icao);
    vcover!(bits(&m, 38, 40) == 5, "category 5");
    vassert!(matches_oracle(&p.ais, &m), "C07: created row's callsign is not the eight characters of the squitter");
    vassert!(p.category == (4, bits(&m, 38, 40) as u32), "C07: created row's emitter category wrong");
}

// @harness props=C07,C11:thorough tier=quick cap=1500
// the identification squitter that creates a row, all other characters omitted codes (the callsign may be
// EMPTY): default path; callsign = oracle (possibly ""), category recorded
#[cfg_attr(kani, kani::proof)]
#[cfg_attr(kani, kani::unwind(30))]
#[cfg_attr(kani, kani::stub(chrono::Utc::now, crate::verif::rt::stub_now))]
#[cfg_attr(kani, kani::stub(crate::decoder::get_downlink_format, super::rows::stub_get_df))]
#[cfg_attr(kani, kani::stub(crate::decoder::adsb::icao::get_icao, super::rows::stub_get_icao))]
#[cfg_attr(kani, kani::stub(crate::decoder::utils::get_message_type, super::rows::stub_get_tc))]
#[cfg_attr(verif_replay, test)]
fn c07_create_tc4_blank() {
    let codes = pair_codes_blank(4);
    let m = id_frame(codes);
    pin_df(&m, 17);
    pin_tc(&m, 4);
    let Some((df, icao)) = accepted(&m) else { return };
    let p = create(&m, df, icao);
    vcover!(ais_char(codes[4]) == 0 && ais_char(codes[5]) == 0, "all eight characters omitted");
    vcover!(ais_char(codes[4]) != 0, "one printable character");
    vassert!(matches_oracle(&p.ais, &m), "C07: created row's callsign is not the eight characters of the squitter (empty when all are omitted)");
    vassert!(p.category == (4, bits(&m, 38, 40) as u32), "C07: created row's emitter category wrong");
}

// @harness props=C07 tier=quick cap=300
// wake class letter for every (type code, category)
#[cfg_attr(kani, kani::proof)]
#[cfg_attr(verif_replay, test)]
fn c07_wake_all() {
    let tc = any_below(32);
    let ca = any_below(8);
    let got = get_wake_turbulence_category(&(tc, ca));
    vcover!(tc == 4 && ca == 5, "J");
    vcover!(tc == 3 && ca == 5, "not TC4");
    vassert!(got == wake(tc, ca), "C07: wake class letter differs from the TC4 category table");
}

macro_rules! bds20 {
    ($name:ident, $df:expr, $p:expr) => {
        #[cfg_attr(kani, kani::proof)]
        #[cfg_attr(kani, kani::unwind(90))]
        #[cfg_attr(kani, kani::stub(chrono::Utc::now, crate::verif::rt::stub_now))]
        #[cfg_attr(kani, kani::stub(crate::decoder::get_downlink_format, super::rows::stub_get_df))]
        #[cfg_attr(kani, kani::stub(crate::decoder::adsb::icao::get_icao, super::rows::stub_get_icao))]
        #[cfg_attr(verif_replay, test)]
        fn $name() {
            let codes = pair_codes($p);
            let mut m = id_frame(codes);
            m[8] = 2; // BDS code 2,0 in the first MB byte
            m[9] = 0;
            pin_df(&m, $df);
            let relaxed = any_bool();
            let mut p = any_row();
            p.ais = None;
            let Some((df, icao)) = accepted(&m) else { return };
            p.icao = icao;
            let before = clone_row(&p);
            apply(&mut p, &m, df, false, relaxed);
            let open = relaxed || before.capability.0 > 3;
            vcover!(open && !relaxed, "gate opened by the recorded capability");
            vcover!(!open, "gate closed");
            if open {
                vassert!(matches_oracle(&p.ais, &m), "C07/C10: BDS 2,0 callsign is not the eight characters of the MB field");
            } else {
                vassert!(ais_eq(&p.ais, &before.ais), "C10: BDS 2,0 callsign changed although no capability >= 4 was recorded and -R is off");
            }
            assert_unchanged_except(&before, &p, F_AIS | F_BOOK | F_ALT | F_ALT_SRC | F_SQUAWK);
        }
    };
}
// @harness name=c07_bds20_df20_p3 props=C07,C10 tier=quick cap=900
// DF20 reply with BDS 2,0, characters 3,4 symbolic, arbitrary row / capability / -R
bds20!(c07_bds20_df20_p3, 20, 3);
// @harness name=c07_bds20_df21_p5 props=C07,C10 tier=thorough cap=900
// DF21 reply with BDS 2,0, characters 5,6 symbolic
bds20!(c07_bds20_df21_p5, 21, 5);
