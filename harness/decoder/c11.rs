//! C11 frame lemmas for formats that do NOT carry (most) parameters, and idempotence.
//! (the lemmas for carrying formats live with their property: c05_row_*, c06_row_*, c07_row_*,
//! c09_row_tc19, c08_pairing_*, c10_*; all are tagged C11.)
use super::super::*;
use super::rows::*;
use crate::verif::rt::*;
use crate::verif::spec::*;

macro_rules! short_lemma {
    ($name:ident, $df:expr, $allowed:expr, $post:expr) => {
        #[cfg_attr(kani, kani::proof)]
        #[cfg_attr(kani, kani::unwind(33))]
        #[cfg_attr(kani, kani::stub(chrono::Utc::now, crate::verif::rt::stub_now))]
        #[cfg_attr(kani, kani::stub(crate::decoder::get_downlink_format, super::rows::stub_get_df))]
        #[cfg_attr(kani, kani::stub(crate::decoder::adsb::icao::get_icao, super::rows::stub_get_icao))]
        #[cfg_attr(verif_replay, test)]
        fn $name() {
            let m = frame14();
            pin_df(&m, $df);
            let use_update = any_bool();
            let relaxed = any_bool();
            let mut p = any_row();
            let Some((df, icao)) = accepted(&m) else { return };
            p.icao = icao;
            let before = clone_row(&p);
            apply(&mut p, &m, df, use_update, relaxed);
            vcover!(use_update, "-U");
            vcover!(!use_update, "default path");
            let post: fn(&[u32], &Plane, &Plane) = $post;
            post(&m, &before, &p);
            assert_unchanged_except(&before, &p, $allowed | F_BOOK);
        }
    };
}
fn nothing(_m: &[u32], _a: &Plane, _b: &Plane) {}
fn ca_is_field(m: &[u32], _a: &Plane, b: &Plane) {
    vassert!(b.capability.0 == bits(m, 6, 8) as u32, "C11: capability is not the CA field of the all-call reply just applied");
}
// @harness name=c11_df0_carries_nothing props=C11,C06 tier=quick cap=600
// any DF0 frame: no displayed parameter changes (both paths)
short_lemma!(c11_df0_carries_nothing, 0, F_NONE, nothing);
// @harness name=c11_df11_capability_only props=C11,C06 tier=quick cap=600
// any DF11 frame: capability := CA, nothing else
short_lemma!(c11_df11_capability_only, 11, F_CAP0, ca_is_field);

macro_rules! long_lemma {
    ($name:ident, $df:expr, $tc:expr, $allowed:expr, $post:expr) => {
        #[cfg_attr(kani, kani::proof)]
        #[cfg_attr(kani, kani::unwind(33))]
        #[cfg_attr(kani, kani::stub(chrono::Utc::now, crate::verif::rt::stub_now))]
        #[cfg_attr(kani, kani::stub(crate::decoder::get_downlink_format, super::rows::stub_get_df))]
        #[cfg_attr(kani, kani::stub(crate::decoder::adsb::icao::get_icao, super::rows::stub_get_icao))]
        #[cfg_attr(kani, kani::stub(crate::decoder::utils::get_message_type, super::rows::stub_get_tc))]
        #[cfg_attr(kani, kani::stub(crate::decoder::adsb::position::cpr_location, super::rows::stub_cpr_location))]
        #[cfg_attr(kani, kani::stub(crate::decoder::adsb::position::cpr, super::rows::stub_cpr))]
        #[cfg_attr(kani, kani::stub(crate::decoder::adsb::ais::ais, super::rows::stub_ais))]
        #[cfg_attr(verif_replay, test)]
        fn $name() {
            let m = frame28();
            pin_df(&m, $df);
            if $tc != 99 {
                pin_tc(&m, $tc);
            }
            // position squitters (TC 5-18) write a CPR slot: decide each parity with a constant index
            if $tc >= 5 && $tc <= 18 {
                if bit(&m, 54) == 0 {
                    unsafe { PIN_F = 0 };
                    go(&m);
                } else {
                    unsafe { PIN_F = 1 };
                    go(&m);
                }
            } else {
                go(&m);
            }
            fn go(m: &[u32; 28]) {
                let m = *m;
                let use_update = any_bool();
                let relaxed = any_bool();
                let mut p = any_row();
                let Some((df, icao)) = accepted(&m) else { return };
                p.icao = icao;
                let before = clone_row(&p);
                apply(&mut p, &m, df, use_update, relaxed);
                vcover!(use_update, "-U");
                vcover!(!use_update, "default path");
                let post: fn(&[u32], &Plane, &Plane) = $post;
                post(&m, &before, &p);
                assert_unchanged_except(&before, &p, $allowed | F_BOOK);
            }
        }
    };
}
fn version_is_field(m: &[u32], _a: &Plane, b: &Plane) {
    vassert!(b.adsb_version == Some(bits(m, 73, 75) as u32), "C11: ADS-B version is not ME bits 41-43 of the operational status squitter just applied");
}
fn surface(m: &[u32], _a: &Plane, b: &Plane) {
    vassert!(b.altitude.is_none(), "C11: a surface position squitter must blank the altitude");
}
fn surv_is_field(m: &[u32], _a: &Plane, b: &Plane) {
    let want = match bits(m, 38, 39) {
        0 => 'N',
        1 => 'P',
        2 => 'T',
        _ => 'S',
    };
    vassert!(b.surveillance_status == want, "C11: surveillance status is not the SS field of the squitter just applied");
}
// @harness name=c11_df16_carries_nothing props=C11,C06 tier=quick cap=900
// any DF16 frame: no displayed parameter changes
long_lemma!(c11_df16_carries_nothing, 16, 99, F_NONE, nothing);
// @harness name=c11_tc28_carries_nothing props=C11,C06 tier=quick cap=900
// DF17 TC28 (not interpreted): nothing but capability (CA of the DF17 header)
long_lemma!(c11_tc28_carries_nothing, 17, 28, F_CAP0, nothing);
// @harness name=c11_tc0_carries_nothing props=C11 tier=thorough cap=900
// DF17 TC0: nothing but capability
long_lemma!(c11_tc0_carries_nothing, 17, 0, F_CAP0, nothing);
// @harness name=c11_tc31_version_only props=C11,C06 tier=quick cap=900
// DF17 TC31: ADS-B version (and CA), nothing else
long_lemma!(c11_tc31_version_only, 17, 31, F_CAP0 | F_ADSB_VER, version_is_field);
// @harness name=c11_tc21_gnss_only props=C11 tier=quick cap=900
// DF17 TC21: GNSS altitude and surveillance status only
long_lemma!(c11_tc21_gnss_only, 17, 21, F_CAP0 | F_ALT_GNSS | F_SURV, surv_is_field);
// @harness name=c11_tc6_surface props=C11,C06 tier=quick cap=900
// DF17 TC6 surface position: blanks the altitude; movement/track/CPR/position may change, nothing else
long_lemma!(c11_tc6_surface, 17, 6, F_CAP0 | F_ALT | F_ALT_SRC | F_GNDMOV | F_TRACK | F_TRACK_SRC | F_CPR | F_POS, surface);
// @harness name=c11_df18_tc28 props=C11 tier=thorough cap=900
// DF18 TC28: nothing
long_lemma!(c11_df18_tc28, 18, 28, F_NONE, nothing);

macro_rules! idem_short {
    ($name:ident, $df:expr) => {
        #[cfg_attr(kani, kani::proof)]
        #[cfg_attr(kani, kani::unwind(33))]
        #[cfg_attr(kani, kani::stub(chrono::Utc::now, crate::verif::rt::stub_now))]
        #[cfg_attr(kani, kani::stub(crate::decoder::get_downlink_format, super::rows::stub_get_df))]
        #[cfg_attr(kani, kani::stub(crate::decoder::adsb::icao::get_icao, super::rows::stub_get_icao))]
        #[cfg_attr(verif_replay, test)]
        fn $name() {
            let m = frame14();
            pin_df(&m, $df);
            let use_update = any_bool();
            let relaxed = any_bool();
            let mut p = any_row();
            let Some((df, icao)) = accepted(&m) else { return };
            p.icao = icao;
            apply(&mut p, &m, df, use_update, relaxed);
            let once = clone_row(&p);
            apply(&mut p, &m, df, use_update, relaxed);
            vcover!(use_update, "-U");
            vcover!(!use_update, "default path");
            assert_unchanged_except(&once, &p, F_BOOK);
        }
    };
}
// @harness name=c11_idem_df4 props=C11 tier=quick cap=900
// re-feeding the DF4 frame just applied changes nothing
idem_short!(c11_idem_df4, 4);
// @harness name=c11_idem_df5 props=C11 tier=thorough cap=900
// re-feeding the DF5 frame just applied changes nothing
idem_short!(c11_idem_df5, 5);
// @harness name=c11_idem_df11 props=C11 tier=thorough cap=900
// re-feeding the DF11 frame just applied changes nothing
idem_short!(c11_idem_df11, 11);

fn tc19_no_velocity(m: &[u32], a: &Plane, b: &Plane) {
    // subtypes other than 1/2 carry no ground velocity: track / ground speed stay as they were
    vassert!(a.track == b.track && a.grspeed == b.grspeed, "C11: a TC19 squitter without ground velocity (subtype 0,3..7) changed track / ground speed");
}
// @harness name=c11_tc19_airspeed_subtypes props=C11,C09,C19 tier=quick cap=1200
// DF17 TC19 subtypes 0,3,4,5,6,7 (airspeed/heading or reserved): vertical rate, GNSS altitude and heading may change; track and ground speed must not
#[cfg_attr(kani, kani::proof)]
#[cfg_attr(kani, kani::unwind(33))]
#[cfg_attr(kani, kani::stub(chrono::Utc::now, crate::verif::rt::stub_now))]
#[cfg_attr(kani, kani::stub(crate::decoder::get_downlink_format, super::rows::stub_get_df))]
#[cfg_attr(kani, kani::stub(crate::decoder::adsb::icao::get_icao, super::rows::stub_get_icao))]
#[cfg_attr(kani, kani::stub(crate::decoder::utils::get_message_type, super::rows::stub_get_tc))]
#[cfg_attr(kani, kani::stub(crate::decoder::adsb::ais::ais, super::rows::stub_ais))]
#[cfg_attr(verif_replay, test)]
fn c11_tc19_airspeed_subtypes() {
    let m = frame28();
    pin_df(&m, 17);
    pin_tc(&m, 19);
    let st = bits(&m, 38, 40);
    assume(st != 1 && st != 2);
    let use_update = any_bool();
    let relaxed = any_bool();
    let mut p = any_row();
    let Some((df, icao)) = accepted(&m) else { return };
    p.icao = icao;
    let before = clone_row(&p);
    apply(&mut p, &m, df, use_update, relaxed);
    vcover!(use_update && st == 3, "-U, subtype 3");
    vcover!(!use_update && st == 4 && before.track.is_some(), "default path, subtype 4 on a row with a track");
    vcover!(!use_update && st == 0, "default path, subtype 0");
    tc19_no_velocity(&m, &before, &p);
    assert_unchanged_except(&before, &p, F_VRATE | F_VRATE_SRC | F_ALT_GNSS | F_HDG | F_HDG_SRC | F_ALT_SRC | F_TRACK_SRC | F_CAP0 | F_BOOK);
}
