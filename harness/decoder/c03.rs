//! C03 Every frame is attributed to exactly the address it encodes (field level).
//! Table-level isolation is in harness/planes/c03_table.rs.
use super::super::*;
use super::rows::*;
use crate::verif::rt::*;
use crate::verif::spec::*;

fn want(addr: u32) -> Option<u32> {
    if addr == 0 { None } else { Some(addr) }
}

macro_rules! addr_short {
    ($name:ident, $df:expr, $cov:expr) => {
        #[cfg_attr(kani, kani::proof)]
        #[cfg_attr(kani, kani::unwind(57))]
        #[cfg_attr(verif_replay, test)]
        fn $name() {
            let m = frame14();
            assume(bits(&m, 1, 5) as u32 == $df);
            let a = address56(&m, $df);
            vcover!(a == 0, "a frame whose address is zero exists (dropped)");
            vcover!(a == $cov, "a chosen address is reachable");
            vassert!(get_icao(&m, $df) == want(a), "C03: address differs from AA / AP xor CRC-24 of the frame");
        }
    };
}
macro_rules! addr_long {
    ($name:ident, $df:expr, $cov:expr) => {
        #[cfg_attr(kani, kani::proof)]
        #[cfg_attr(kani, kani::unwind(113))]
        #[cfg_attr(verif_replay, test)]
        fn $name() {
            let m = frame28();
            assume(bits(&m, 1, 5) as u32 == $df);
            let a = address112(&m, $df);
            vcover!(a == 0, "a frame whose address is zero exists (dropped)");
            vcover!(a == $cov, "a chosen address is reachable");
            vassert!(get_icao(&m, $df) == want(a), "C03: address differs from AA / AP xor CRC-24 of the frame");
        }
    };
}

// @harness name=c03_addr_df0 props=C03 tier=thorough cap=900
// all 2^56 DF0 frames: get_icao == AP xor CRC-24 (long-division oracle), zero -> dropped
addr_short!(c03_addr_df0, 0, 0x4CA2D1);
// @harness name=c03_addr_df4 props=C03 tier=quick cap=900
// all 2^56 DF4 frames
addr_short!(c03_addr_df4, 4, 0xA1B2C3);
// @harness name=c03_addr_df5 props=C03 tier=thorough cap=900
// all 2^56 DF5 frames
addr_short!(c03_addr_df5, 5, 0x3C6444);
// @harness name=c03_addr_df11 props=C03 tier=quick cap=900
// all 2^56 DF11 frames: get_icao == AA (bits 9-32)
addr_short!(c03_addr_df11, 11, 0x4840D6);
// @harness name=c03_addr_df16 props=C03 tier=thorough cap=1500
// all 2^112 DF16 frames
addr_long!(c03_addr_df16, 16, 0x71BC00);
// @harness name=c03_addr_df17 props=C03 tier=quick cap=900
// all 2^112 DF17 frames: AA
addr_long!(c03_addr_df17, 17, 0x40621D);
// @harness name=c03_addr_df18 props=C03 tier=thorough cap=900
// all 2^112 DF18 frames: AA
addr_long!(c03_addr_df18, 18, 0xABCDEF);
// @harness name=c03_addr_df20 props=C03 tier=quick cap=1500
// all 2^112 DF20 frames: AP xor CRC-24 over 88 data bits
addr_long!(c03_addr_df20, 20, 0x4BB027);
// @harness name=c03_addr_df21 props=C03 tier=thorough cap=1500
// all 2^112 DF21 frames
addr_long!(c03_addr_df21, 21, 0x000001);
