//! C06 Squawk equals the octal identity code of the latest DF5/DF21 reply
use super::super::*;
use super::rows::*;
use crate::verif::rt::*;
use crate::verif::spec::*;

// @harness props=C06 tier=quick cap=300
// field level: every DF5 frame (all 2^56 contents with DF=5)
#[cfg_attr(kani, kani::proof)]
#[cfg_attr(kani, kani::unwind(29))]
#[cfg_attr(verif_replay, test)]
fn c06_field_df5() {
    let m = frame14();
    pin_df(&m, 5);
    let want = id13_squawk(&m);
    let got = squawk(&m);
    vcover!(want == 7777, "7777 reachable");
    vcover!(want == 1200, "1200 reachable");
    vassert!(got == Some(want), "C06: squawk differs from the identity code A B C D");
}

// @harness props=C06 tier=quick cap=300
// field level: every DF21 frame (all 2^112 contents with DF=21)
#[cfg_attr(kani, kani::proof)]
#[cfg_attr(kani, kani::unwind(29))]
#[cfg_attr(verif_replay, test)]
fn c06_field_df21() {
    let m = frame28();
    pin_df(&m, 21);
    let want = id13_squawk(&m);
    let got = squawk(&m);
    vcover!(want == 7700, "7700 reachable");
    vassert!(got == Some(want), "C06: squawk differs from the identity code A B C D");
}

// @harness props=C06,C11 tier=quick cap=600
// row step: any DF5 frame (non-zero address) on an arbitrary row, -U and -R symbolic: the row's
// squawk is the frame's code and nothing but squawk/bookkeeping changes
#[cfg_attr(kani, kani::proof)]
#[cfg_attr(kani, kani::unwind(33))]
#[cfg_attr(kani, kani::stub(chrono::Utc::now, crate::verif::rt::stub_now))]
#[cfg_attr(kani, kani::stub(crate::decoder::get_downlink_format, super::rows::stub_get_df))]
#[cfg_attr(kani, kani::stub(crate::decoder::adsb::icao::get_icao, super::rows::stub_get_icao))]
#[cfg_attr(verif_replay, test)]
fn c06_row_df5() {
    let m = frame14();
    pin_df(&m, 5);
    let use_update = any_bool();
    let relaxed = any_bool();
    let mut p = any_row();
    let Some((df, icao)) = accepted(&m) else { return };
    p.icao = icao;
    let before = clone_row(&p);
    apply(&mut p, &m, df, use_update, relaxed);
    let want = id13_squawk(&m);
    vcover!(use_update && before.squawk.is_some() && before.squawk != Some(want), "overwrite via -U");
    vcover!(!use_update && before.squawk.is_none(), "first squawk via default path");
    vassert!(p.squawk == Some(want), "C06: row squawk is not the identity code of the DF5 reply just applied");
    assert_unchanged_except(&before, &p, F_SQUAWK | F_BOOK);
}

// @harness props=C06 tier=quick cap=600
// the DF5 frame that creates a row: the new row shows the frame's code
#[cfg_attr(kani, kani::proof)]
#[cfg_attr(kani, kani::unwind(33))]
#[cfg_attr(kani, kani::stub(chrono::Utc::now, crate::verif::rt::stub_now))]
#[cfg_attr(kani, kani::stub(crate::decoder::get_downlink_format, super::rows::stub_get_df))]
#[cfg_attr(kani, kani::stub(crate::decoder::adsb::icao::get_icao, super::rows::stub_get_icao))]
#[cfg_attr(verif_replay, test)]
fn c06_create_df5() {
    let m = frame14();
    pin_df(&m, 5);
    let Some((df, icao)) = accepted(&m) else { return };
    let p = create(&m, df, icao);
    vcover!(p.squawk == Some(7500), "7500 reachable on creation");
    vassert!(p.icao == icao, "C06: created row has another address");
    vassert!(p.squawk == Some(id13_squawk(&m)), "C06: created row's squawk is not the identity code");
}

// @harness props=C06,C11:thorough tier=quick cap=1500 mem=24
// row step: any DF21 frame on an arbitrary row, capability, BDS 1,7 flags and -R symbolic (the whole
// MB decoder runs; callsign construction stubbed by a marker): squawk is the frame's code
#[cfg_attr(kani, kani::proof)]
#[cfg_attr(kani, kani::unwind(90))]
#[cfg_attr(kani, kani::stub(chrono::Utc::now, crate::verif::rt::stub_now))]
#[cfg_attr(kani, kani::stub(crate::decoder::get_downlink_format, super::rows::stub_get_df))]
#[cfg_attr(kani, kani::stub(crate::decoder::adsb::icao::get_icao, super::rows::stub_get_icao))]
#[cfg_attr(kani, kani::stub(crate::decoder::adsb::ais::ais, super::rows::stub_ais))]
#[cfg_attr(verif_replay, test)]
fn c06_row_df21() {
    let m = frame28();
    pin_df(&m, 21);
    let relaxed = any_bool();
    let use_update = any_bool();
    let mut p = any_row();
    let Some((df, icao)) = accepted(&m) else { return };
    p.icao = icao;
    let before = clone_row(&p);
    apply(&mut p, &m, df, use_update, relaxed);
    let want = id13_squawk(&m);
    vcover!(relaxed, "relaxed");
    vcover!(!relaxed && before.capability.0 > 3, "gate open by capability");
    vcover!(!relaxed && before.capability.0 <= 3 && before.squawk.is_some() && before.squawk != Some(want), "gate closed, overwrite");
    vassert!(p.squawk == Some(want), "C06: row squawk is not the identity code of the DF21 reply just applied");
}
