//! C06 Squawk equals the octal identity code of the latest DF5/DF21 reply
use super::super::*;
use crate::verif::rt::*;
use crate::verif::spec::*;

// @harness props=C06 tier=quick cap=300
// field level: every DF5 frame (all 2^56 contents)
#[cfg_attr(kani, kani::proof)]
#[cfg_attr(kani, kani::unwind(29))]
#[cfg_attr(verif_replay, test)]
fn c06_field_df5() {
    let mut m = frame14();
    set_bits(&mut m, 1, 5, 5);
    let want = id13_squawk(&m);
    let got = squawk(&m);
    vcover!(want == 7777, "7777 reachable");
    vcover!(want == 1200, "1200 reachable");
    vassert!(got == Some(want), "C06: squawk differs from the identity code A B C D");
}
