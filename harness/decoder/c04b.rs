//! C02/C04 harnesses that call the predicates introduced by the repairs (`length_matches_format`,
//! `parity_is_valid`) by name. Kept apart so that the remaining harnesses still build against the
//! PINNED tree (driver: VERIF_PINNED_TREE=1 drops this file), which is how the detection of the
//! original defects is re-demonstrated.
use super::super::*;
use super::c04::*;
use super::rows::*;
use crate::verif::rt::*;
use crate::verif::spec::*;

// @harness props=C04 tier=quick cap=1500
// the parity predicate get_message applies, on every 112-bit frame with DF17/18 (array input):
// valid <=> CRC-24 remainder of the whole frame is 0
#[cfg_attr(kani, kani::proof)]
#[cfg_attr(kani, kani::unwind(113))]
#[cfg_attr(verif_replay, test)]
fn c04_parity_predicate_long() {
    let m = frame28();
    let df = bits(&m, 1, 5);
    assume(df == 17 || df == 18);
    let ok = rem112(&m) == 0;
    vcover!(ok && df == 18, "a valid DF18 exists");
    vcover!(!ok, "a corrupted squitter exists");
    vassert!(parity_is_valid(&m) == ok, "C04: parity predicate accepts a DF17/18 frame whose CRC-24 remainder is not 0 (or rejects a valid one)");
}

// ---- 112-bit lines: compositional ---------------------------------------------------------------
// get_message on a symbolic 28-nibble Vec next to CRC-88 and the long-division oracle exhausts memory
// (> 24 GB), while the same predicates on an array take a minute. The long-frame claim is therefore
//   (a) c04_parity_predicate_long / c02_length_predicate: the two predicates equal the oracles on every frame;
//   (b) c02_get_message_structure_long: get_message keeps a 28-digit line iff BOTH predicates hold
//       (predicates replaced by recorders returning arbitrary answers), and returns the digits offered.
// For 56-bit lines the direct harnesses (c04_parity_df11, c02_frame_rule_short) run get_message whole.
pub static mut LEN_RET: bool = false;
pub static mut PAR_RET: bool = false;
pub static mut LEN_CALLS: u32 = 0;
pub static mut PAR_CALLS: u32 = 0;
pub static mut PRED_SEEN: (usize, u32, u32) = (0, 0, 0);
pub fn stub_length_matches_format(m: &[u32]) -> bool {
    unsafe {
        LEN_CALLS += 1;
        PRED_SEEN = (m.len(), m[0], m[27]);
        LEN_RET
    }
}
pub fn stub_parity_is_valid(m: &[u32]) -> bool {
    unsafe {
        PAR_CALLS += 1;
        PRED_SEEN = (m.len(), m[0], m[27]);
        PAR_RET
    }
}

// @harness props=C02,C04,C01 tier=quick cap=900
// get_message keeps a 28-digit line iff the length/DF predicate AND the parity predicate hold, and
// hands back exactly the digits offered (predicates as arbitrary-answer recorders, all 2^112 contents)
#[cfg_attr(kani, kani::proof)]
#[cfg_attr(kani, kani::unwind(30))]
#[cfg_attr(kani, kani::stub(crate::decoder::utils::format::clean_squitter, super::c04::stub_clean_squitter))]
#[cfg_attr(kani, kani::stub(crate::decoder::utils::crc::reminder, super::c04::stub_reminder))]
#[cfg_attr(kani, kani::stub(crate::decoder::utils::crc::length_matches_format, stub_length_matches_format))]
#[cfg_attr(kani, kani::stub(crate::decoder::utils::crc::parity_is_valid, stub_parity_is_valid))]
#[cfg_attr(verif_replay, test)]
fn c02_get_message_structure_long() {
    let m = frame28();
    let (l, p) = (any_bool(), any_bool());
    unsafe {
        LEN_RET = l;
        PAR_RET = p;
    }
    let got = offer28(&m);
    #[cfg(kani)]
    {
        vcover!(l && p, "both predicates hold");
        vcover!(l && !p, "parity fails");
        vassert!(got.is_some() == (l && p), "C02/C04: get_message does not apply both the length/DF rule and the parity rule to a 28-digit line");
        unsafe {
            if l && p {
                vassert!(PRED_SEEN == (28, m[0], m[27]), "C02: the rules are not evaluated on the digits of the line");
            }
        }
    }
    #[cfg(not(kani))]
    {
        // native replay: no recorders; compare with the oracles directly
        vassert!(got.is_some() == frame_rule(&m), "C02/C04: 28-digit line taken/rejected against the frame rule");
    }
    if let Some(v) = got {
        vassert!(same28(&v, &m), "C02: accepted frame differs from the digits offered");
    }
}

// @harness props=C02,C01 tier=quick cap=600
// the length/DF predicate on every 56-bit and every 112-bit frame: holds <=> (DF < 16) == (56 bits)
#[cfg_attr(kani, kani::proof)]
#[cfg_attr(kani, kani::unwind(30))]
#[cfg_attr(verif_replay, test)]
fn c02_length_predicate() {
    let s = frame14();
    let l = frame28();
    vcover!(bits(&s, 1, 5) == 17, "a short frame announcing DF17");
    vcover!(bits(&l, 1, 5) == 15, "a long frame announcing DF15");
    vcover!(bits(&l, 1, 5) == 16, "a long frame announcing DF16");
    vassert!(length_matches_format(&s) == (bits(&s, 1, 5) < 16), "C02: 56-bit frame accepted/rejected against its DF");
    vassert!(length_matches_format(&l) == (bits(&l, 1, 5) >= 16), "C02: 112-bit frame accepted/rejected against its DF");
}

// @harness props=C04,C02 tier=quick cap=900
// the parity predicate leaves every non-squitter format alone (DF other than 11/17/18, both lengths)
#[cfg_attr(kani, kani::proof)]
#[cfg_attr(kani, kani::unwind(113))]
#[cfg_attr(verif_replay, test)]
fn c04_parity_predicate_other_formats() {
    let s = frame14();
    let l = frame28();
    let (ds, dl) = (bits(&s, 1, 5), bits(&l, 1, 5));
    assume(ds != 11 && ds != 17 && ds != 18 && dl != 11 && dl != 17 && dl != 18);
    vcover!(dl == 20, "a DF20");
    vassert!(parity_is_valid(&s) && parity_is_valid(&l), "C02: a reply format without a parity-only field is rejected by the parity rule");
}
