//! C05 Barometric altitude equals the Mode S altitude-code decoding
use super::super::*;
use super::rows::*;
use crate::verif::kf::*;
use crate::verif::rt::*;
use crate::verif::spec::*;

/// the region of the open known finding C05_GILLHAM: M=0, Q=0, non-zero code
fn gillham13(m: &[u32]) -> bool {
    bits(m, 20, 32) != 0 && bit(m, 26) == 0 && bit(m, 28) == 0
}
fn gillham12(m: &[u32]) -> bool {
    bits(m, 41, 52) != 0 && bit(m, 48) == 0
}

// @harness props=C05 tier=quick cap=900
// field level, every DF4 frame: altitude == AC13 decoding (Q=1: 25N-1000 if >= 0; zero: none; M=1 free)
#[cfg_attr(kani, kani::proof)]
#[cfg_attr(kani, kani::unwind(33))]
#[cfg_attr(verif_replay, test)]
fn c05_field_df4() {
    let m = frame14();
    assume(bits(&m, 1, 5) == 4);
    if C05_GILLHAM_OPEN {
        assume(!gillham13(&m));
    }
    let want = ac13(&m);
    let got = altitude(&m, 4);
    vcover!(want == Alt::Ft(38000), "FL380 reachable");
    vcover!(want == Alt::Ft(-1000), "a code below 0 ft reachable");
    vcover!(want == Alt::Ft(0), "0 ft reachable");
    vcover!(want == Alt::NoAlt, "all-zero code reachable");
    vcover!(want == Alt::Metric, "metric code reachable");
    vassert!(alt_matches(want, got), "C05: DF4 altitude differs from the AC13 decoding");
}

// @harness props=C05 tier=quick cap=900
// field level, every DF20 frame
#[cfg_attr(kani, kani::proof)]
#[cfg_attr(kani, kani::unwind(33))]
#[cfg_attr(verif_replay, test)]
fn c05_field_df20() {
    let m = frame28();
    assume(bits(&m, 1, 5) == 20);
    if C05_GILLHAM_OPEN {
        assume(!gillham13(&m));
    }
    let want = ac13(&m);
    let got = altitude(&m, 20);
    vcover!(want == Alt::Ft(50175), "top of the 25-ft range reachable");
    vcover!(want == Alt::Ft(-25), "-25 ft reachable");
    vassert!(alt_matches(want, got), "C05: DF20 altitude differs from the AC13 decoding");
}

// @harness props=C05 tier=quick cap=900
// field level, every DF17 frame with TC 9..18: altitude == AC12 decoding of ME bits 9-20
#[cfg_attr(kani, kani::proof)]
#[cfg_attr(kani, kani::unwind(33))]
#[cfg_attr(verif_replay, test)]
fn c05_field_tc9_18() {
    let m = frame28();
    assume(bits(&m, 1, 5) == 17);
    let tc = bits(&m, 33, 37);
    assume(tc >= 9 && tc <= 18);
    if C05_GILLHAM_OPEN {
        assume(!gillham12(&m));
    }
    let want = ac12(&m);
    let got = altitude(&m, 17);
    vcover!(want == Alt::Ft(38000), "FL380 reachable");
    vcover!(want == Alt::Ft(-1000), "a code below 0 ft reachable");
    vcover!(want == Alt::NoAlt, "all-zero code reachable");
    vassert!(alt_matches(want, got), "C05: TC9-18 altitude differs from the AC12 decoding");
}

// @harness props=C05 tier=quick cap=900 witness=C05_GILLHAM
// WITNESS of the open finding: DF4, M=0, Q=0, legal Gillham code with a non-negative altitude
#[cfg_attr(kani, kani::proof)]
#[cfg_attr(kani, kani::unwind(33))]
#[cfg_attr(verif_replay, test)]
fn c05_witness_gillham_df4() {
    let m = frame14();
    assume(bits(&m, 1, 5) == 4);
    assume(gillham13(&m));
    let want = ac13(&m);
    let got = altitude(&m, 4);
    vcover!(want == Alt::Ft(200), "200 ft (C1 B2 B4) reachable");
    vassert!(alt_matches(want, got), "C05: Gillham (Q=0) altitude differs from the Mode C decoding");
}

// @harness props=C05 tier=quick cap=900 witness=C05_GILLHAM
// WITNESS of the open finding: DF17 TC9-18, Q=0
#[cfg_attr(kani, kani::proof)]
#[cfg_attr(kani, kani::unwind(33))]
#[cfg_attr(verif_replay, test)]
fn c05_witness_gillham_tc() {
    let m = frame28();
    assume(bits(&m, 1, 5) == 17);
    let tc = bits(&m, 33, 37);
    assume(tc >= 9 && tc <= 18);
    assume(gillham12(&m));
    let want = ac12(&m);
    let got = altitude(&m, 17);
    vcover!(want == Alt::Ft(51000), "51000 ft reachable");
    vassert!(alt_matches(want, got), "C05: Gillham (Q=0) altitude of an airborne-position squitter differs from the Mode C decoding");
}

/// row-level expectation (C05: "every such frame for an aircraft already in the table has this
/// effect"): the carried value; for an all-zero code or a value below 0 ft NO altitude, i.e. blank -
/// also on a row that held one (C11's "or keeps its previous value" is C11's leniency, not C05's)
fn row_alt_ok(want: Alt, _before: Option<u32>, after: Option<u32>) -> bool {
    match want {
        Alt::Metric => true,
        Alt::Ft(v) if v >= 0 => after == Some(v as u32),
        _ => after.is_none(),
    }
}

// @harness props=C05,C11 tier=quick cap=900
// row step: any DF4 frame on an arbitrary row, -U / -R symbolic
#[cfg_attr(kani, kani::proof)]
#[cfg_attr(kani, kani::unwind(33))]
#[cfg_attr(kani, kani::stub(chrono::Utc::now, crate::verif::rt::stub_now))]
#[cfg_attr(kani, kani::stub(crate::decoder::get_downlink_format, super::rows::stub_get_df))]
#[cfg_attr(kani, kani::stub(crate::decoder::adsb::icao::get_icao, super::rows::stub_get_icao))]
#[cfg_attr(verif_replay, test)]
fn c05_row_df4() {
    let m = frame14();
    pin_df(&m, 4);
    if C05_GILLHAM_OPEN {
        assume(!gillham13(&m));
    }
    let use_update = any_bool();
    let relaxed = any_bool();
    let mut p = any_row();
    let Some((df, icao)) = accepted(&m) else { return };
    p.icao = icao;
    let before = clone_row(&p);
    apply(&mut p, &m, df, use_update, relaxed);
    let want = ac13(&m);
    vcover!(use_update && want == Alt::Ft(12000) && before.altitude == Some(11975), "climb by 25 ft via -U");
    vcover!(!use_update && want == Alt::Ft(3000), "default path");
    vcover!(want == Alt::Ft(-500), "a code below 0 ft on an existing row");
    vassert!(row_alt_ok(want, before.altitude, p.altitude), "C05: row altitude is not the AC13 decoding of the DF4 reply just applied");
    assert_unchanged_except(&before, &p, F_ALT | F_ALT_SRC | F_BOOK);
}

// @harness props=C05 tier=quick cap=900
// the DF4 frame that creates a row
#[cfg_attr(kani, kani::proof)]
#[cfg_attr(kani, kani::unwind(33))]
#[cfg_attr(kani, kani::stub(chrono::Utc::now, crate::verif::rt::stub_now))]
#[cfg_attr(kani, kani::stub(crate::decoder::get_downlink_format, super::rows::stub_get_df))]
#[cfg_attr(kani, kani::stub(crate::decoder::adsb::icao::get_icao, super::rows::stub_get_icao))]
#[cfg_attr(verif_replay, test)]
fn c05_create_df4() {
    let m = frame14();
    pin_df(&m, 4);
    if C05_GILLHAM_OPEN {
        assume(!gillham13(&m));
    }
    let Some((df, icao)) = accepted(&m) else { return };
    let p = create(&m, df, icao);
    let want = ac13(&m);
    vcover!(want == Alt::Ft(100), "100 ft on creation");
    vassert!(p.icao == icao, "C05: created row has another address");
    vassert!(row_alt_ok(want, None, p.altitude), "C05: created row's altitude is not the AC13 decoding");
}

// @harness props=C05,C11:thorough tier=quick cap=1500 mem=24
// row step: any DF20 frame on an arbitrary row (capability, BDS 1,7 flags, -R symbolic; callsign stub)
#[cfg_attr(kani, kani::proof)]
#[cfg_attr(kani, kani::unwind(90))]
#[cfg_attr(kani, kani::stub(chrono::Utc::now, crate::verif::rt::stub_now))]
#[cfg_attr(kani, kani::stub(crate::decoder::get_downlink_format, super::rows::stub_get_df))]
#[cfg_attr(kani, kani::stub(crate::decoder::adsb::icao::get_icao, super::rows::stub_get_icao))]
#[cfg_attr(kani, kani::stub(crate::decoder::adsb::ais::ais, super::rows::stub_ais))]
#[cfg_attr(verif_replay, test)]
fn c05_row_df20() {
    let m = frame28();
    pin_df(&m, 20);
    if C05_GILLHAM_OPEN {
        assume(!gillham13(&m));
    }
    let relaxed = any_bool();
    let use_update = any_bool();
    let mut p = any_row();
    let Some((df, icao)) = accepted(&m) else { return };
    p.icao = icao;
    let before = clone_row(&p);
    apply(&mut p, &m, df, use_update, relaxed);
    let want = ac13(&m);
    vcover!(relaxed && want == Alt::Ft(41000), "relaxed, FL410");
    vcover!(!relaxed && before.capability.0 <= 3 && want == Alt::Ft(-975), "gate closed, below 0 ft");
    vassert!(row_alt_ok(want, before.altitude, p.altitude), "C05: row altitude is not the AC13 decoding of the DF20 reply just applied");
}

macro_rules! row_tc {
    ($name:ident, $tc:expr, $f:expr) => {
        #[cfg_attr(kani, kani::proof)]
        #[cfg_attr(kani, kani::unwind(33))]
        #[cfg_attr(kani, kani::stub(chrono::Utc::now, crate::verif::rt::stub_now))]
        #[cfg_attr(kani, kani::stub(crate::decoder::get_downlink_format, super::rows::stub_get_df))]
        #[cfg_attr(kani, kani::stub(crate::decoder::adsb::icao::get_icao, super::rows::stub_get_icao))]
        #[cfg_attr(kani, kani::stub(crate::decoder::utils::get_message_type, super::rows::stub_get_tc))]
        #[cfg_attr(kani, kani::stub(crate::decoder::adsb::position::cpr_location, super::rows::stub_cpr_location))]
        #[cfg_attr(kani, kani::stub(crate::decoder::adsb::position::cpr, super::rows::stub_cpr))]
        #[cfg_attr(kani, kani::stub(crate::decoder::adsb::ais::ais, super::rows::stub_ais))]
        #[cfg_attr(verif_replay, test)]
        fn $name() {
            let m = frame28();
            pin_df(&m, 17);
            pin_tc(&m, $tc);
            pin_f(&m, $f);
            if C05_GILLHAM_OPEN {
                assume(!gillham12(&m));
            }
            let use_update = any_bool();
            let relaxed = any_bool();
            let mut p = any_row();
            let Some((df, icao)) = accepted(&m) else { return };
            p.icao = icao;
            let before = clone_row(&p);
            apply(&mut p, &m, df, use_update, relaxed);
            let want = ac12(&m);
            vcover!(use_update && want == Alt::Ft(35000), "FL350 via -U");
            vcover!(!use_update && want == Alt::Ft(-1000), "-1000 ft via the default path");
            vcover!(want == Alt::NoAlt && before.altitude.is_some(), "altitude not available on a row that has one");
            vassert!(row_alt_ok(want, before.altitude, p.altitude), "C05: row altitude is not the AC12 decoding of the position squitter just applied");
            assert_unchanged_except(&before, &p, F_ALT | F_ALT_SRC | F_SURV | F_CPR | F_POS | F_BOOK | F_CAP0);
        }
    };
}
// @harness name=c05_row_tc11 props=C05,C11 tier=quick cap=1500
// row step: any even DF17 TC11 squitter on an arbitrary row, -U/-R symbolic, position decode stubbed (no fix)
row_tc!(c05_row_tc11, 11, 0);
// @harness name=c05_row_tc9 props=C05,C11:thorough tier=thorough cap=900
// row step: TC9, odd frame
row_tc!(c05_row_tc9, 9, 1);
// @harness name=c05_row_tc18 props=C05,C11:thorough tier=thorough cap=900
// row step: TC18, even frame
row_tc!(c05_row_tc18, 18, 0);
// @harness name=c05_row_tc13 props=C05,C11:thorough tier=thorough cap=900
// row step: TC13, odd frame
row_tc!(c05_row_tc13, 13, 1);
