//! C12 (refresh half): the last-contact age restarts at 0 with every accepted frame of any format
//! under any option set. One harness per format class; the row was last heard `age` >= 2 s ago.
use super::super::*;
use super::rows::*;
use crate::verif::rt::*;

fn stale_row(icao: u32) -> (Plane, i64) {
    let mut p = Plane::new();
    p.icao = icao;
    p.capability.0 = any_below(8);
    let age = any_i64();
    assume(age >= 2 && age < 40000);
    p.timestamp = stamp(age);
    p.cpr_time = [stamp(age), stamp(age)];
    (p, age)
}
fn age_of(p: &Plane) -> i64 {
    now().signed_duration_since(p.timestamp).num_seconds()
}

macro_rules! refresh_short {
    ($name:ident, $df:expr) => {
        #[cfg_attr(kani, kani::proof)]
        #[cfg_attr(kani, kani::unwind(33))]
        #[cfg_attr(kani, kani::stub(chrono::Utc::now, crate::verif::rt::stub_now))]
        #[cfg_attr(kani, kani::stub(crate::decoder::get_downlink_format, super::rows::stub_get_df))]
        #[cfg_attr(kani, kani::stub(crate::decoder::adsb::icao::get_icao, super::rows::stub_get_icao))]
        #[cfg_attr(verif_replay, test)]
        fn $name() {
            let m = frame14();
            pin_df(&m, $df);
            let use_update = any_bool();
            let relaxed = any_bool();
            let Some((df, icao)) = accepted(&m) else { return };
            let (mut p, age) = stale_row(icao);
            apply(&mut p, &m, df, use_update, relaxed);
            vcover!(use_update, "-U");
            vcover!(!use_update && age == 59, "default path, row 59 s old");
            vassert!(age_of(&p) == 0, "C12: last-contact age does not restart at 0 with an accepted frame");
        }
    };
}
macro_rules! refresh_long {
    ($name:ident, $df:expr, $tc:expr) => {
        #[cfg_attr(kani, kani::proof)]
        #[cfg_attr(kani, kani::unwind(90))]
        #[cfg_attr(kani, kani::stub(chrono::Utc::now, crate::verif::rt::stub_now))]
        #[cfg_attr(kani, kani::stub(crate::decoder::get_downlink_format, super::rows::stub_get_df))]
        #[cfg_attr(kani, kani::stub(crate::decoder::adsb::icao::get_icao, super::rows::stub_get_icao))]
        #[cfg_attr(kani, kani::stub(crate::decoder::utils::get_message_type, super::rows::stub_get_tc))]
        #[cfg_attr(kani, kani::stub(crate::decoder::adsb::ais::ais, super::rows::stub_ais))]
        #[cfg_attr(kani, kani::stub(crate::decoder::adsb::position::cpr_location, super::rows::stub_cpr_location))]
        #[cfg_attr(kani, kani::stub(crate::decoder::adsb::position::cpr, super::rows::stub_cpr))]
        #[cfg_attr(kani, kani::stub(crate::decoder::ehs::base::track_and_groundspeed, stub_tag))]
        #[cfg_attr(verif_replay, test)]
        fn $name() {
            let m = frame28();
            pin_df(&m, $df);
            if $tc != 99 {
                pin_tc(&m, $tc);
            }
            // position squitters (TC 5-18) write a CPR slot: decide each parity with a constant index
            if $tc >= 5 && $tc <= 18 {
                if bit(&m, 54) == 0 {
                    unsafe { PIN_F = 0 };
                    go(&m);
                } else {
                    unsafe { PIN_F = 1 };
                    go(&m);
                }
            } else {
                go(&m);
            }
            fn go(m: &[u32; 28]) {
                let m = *m;
                let use_update = any_bool();
                let relaxed = any_bool();
                let Some((df, icao)) = accepted(&m) else { return };
                let (mut p, age) = stale_row(icao);
                apply(&mut p, &m, df, use_update, relaxed);
                vcover!(use_update, "-U");
                vcover!(!use_update && age == 59, "default path (or Comm-B), row 59 s old");
                vassert!(age_of(&p) == 0, "C12: last-contact age does not restart at 0 with an accepted frame");
            }
        }
    };
}
/// velocity decoding is irrelevant for the time stamp: cut the float code
pub fn stub_tag(_m: &[u32], _s: bool) -> (Option<u32>, Option<u32>) {
    (None, None)
}

// @harness name=c12_refresh_df0 props=C12 tier=thorough cap=600
// any DF0 frame, -U/-R symbolic
refresh_short!(c12_refresh_df0, 0);
// @harness name=c12_refresh_df4 props=C12,C19 tier=quick cap=600
// any DF4 frame, -U/-R symbolic
refresh_short!(c12_refresh_df4, 4);
// @harness name=c12_refresh_df5 props=C12 tier=thorough cap=600
// any DF5 frame
refresh_short!(c12_refresh_df5, 5);
// @harness name=c12_refresh_df11 props=C12,C19:thorough tier=quick cap=600
// any DF11 frame
refresh_short!(c12_refresh_df11, 11);
// @harness name=c12_refresh_df16 props=C12 tier=thorough cap=900
// any DF16 frame
refresh_long!(c12_refresh_df16, 16, 99);
// @harness name=c12_refresh_df17_tc4 props=C12 tier=thorough cap=900
// any DF17 identification squitter
refresh_long!(c12_refresh_df17_tc4, 17, 4);
// @harness name=c12_refresh_df17_tc11 props=C12,C19:thorough tier=quick cap=900
// any DF17 airborne position squitter (TC11)
refresh_long!(c12_refresh_df17_tc11, 17, 11);
// @harness name=c12_refresh_df17_tc19 props=C12 tier=thorough cap=900
// any DF17 velocity squitter
refresh_long!(c12_refresh_df17_tc19, 17, 19);
// @harness name=c12_refresh_df17_tc28 props=C12 tier=thorough cap=900
// any DF17 squitter of a type the decoder does not interpret (TC28)
refresh_long!(c12_refresh_df17_tc28, 17, 28);
// @harness name=c12_refresh_df18 props=C12 tier=quick cap=900
// any DF18 squitter (TC11)
refresh_long!(c12_refresh_df18, 18, 11);
// @harness name=c12_refresh_df20 props=C12 tier=thorough cap=1500 mem=24
// any DF20 reply
refresh_long!(c12_refresh_df20, 20, 99);
// @harness name=c12_refresh_df21 props=C12 tier=thorough cap=1500 mem=24
// any DF21 reply
refresh_long!(c12_refresh_df21, 21, 99);
