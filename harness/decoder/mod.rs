//! Injected at `src/decoder/vh/` of a snapshot; child of `decoder`, so `pub(crate)` decoders and
//! the privately imported `bds::*`, `ehs::*`, `country::*` items are callable.
#![allow(dead_code, unused_imports, unused_variables, unused_mut, clippy::all)]

pub(crate) mod rows;
mod lemmas;
mod c03;
mod c04;
mod c05;
mod c06;
mod c09;
mod c12;
mod c17;
