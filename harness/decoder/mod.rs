//! Injected at `src/decoder/vh/` of a snapshot; child of `decoder`, so `pub(crate)` decoders and
//! the privately imported `bds::*`, `ehs::*`, `country::*` items are callable.
#![allow(dead_code, unused_imports, unused_variables, unused_mut, clippy::all)]

pub(crate) mod rows;
mod lemmas;
mod c01;
mod c03;
pub(crate) mod c04;
mod c04b;
mod c05;
mod c06;
mod c07;
mod c08;
pub(crate) mod c09;
mod c10;
mod c11;
pub(crate) mod c12;
mod c17;
mod c19;
