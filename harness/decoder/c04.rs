//! C04 squitter parity and C02(c) the frame rule, decided on `get_message` itself: the text
//! cleaner is replaced by a stub that hands `get_message` an arbitrary nibble vector, so whatever
//! filters `get_message` applies run on all 2^56 / 2^112 contents.
use super::super::*;
use super::rows::*;
use crate::verif::rt::*;
use crate::verif::spec::*;

pub static mut STUB_FRAME: [u32; 28] = [0; 28];
pub static mut STUB_LEN: usize = 0;

/// stands for "a line whose hex digits are exactly this frame"
pub fn stub_clean_squitter(_line: &str) -> Option<Vec<u32>> {
    unsafe {
        if STUB_LEN == 14 {
            Some(STUB_FRAME[..14].to_vec())
        } else {
            Some(STUB_FRAME[..28].to_vec())
        }
    }
}

/// `reminder()` (an always-zero legacy filter in get_message) is cut in the 112-bit harnesses: its
/// Vec<u8> juggling next to CRC-88 exhausts memory. The lemmas `lemma_reminder_is_zero_*` decide
/// separately that it returns 0 for every frame, so the cut does not change get_message.
pub fn stub_reminder(_m: &[u32]) -> u32 {
    0
}

pub fn offer14(m: &[u32; 14]) -> Option<Vec<u32>> {
    unsafe {
        let mut i = 0;
        while i < 14 {
            STUB_FRAME[i] = m[i];
            i += 1;
        }
        STUB_LEN = 14;
    }
    #[cfg(kani)]
    {
        get_message("")
    }
    #[cfg(not(kani))]
    {
        // native replay: the real cleaner runs on the frame written as hex text
        let s: String = m.iter().map(|x| char::from_digit(*x, 16).unwrap()).collect();
        get_message(&s)
    }
}
pub fn offer28(m: &[u32; 28]) -> Option<Vec<u32>> {
    unsafe {
        let mut i = 0;
        while i < 28 {
            STUB_FRAME[i] = m[i];
            i += 1;
        }
        STUB_LEN = 28;
    }
    #[cfg(kani)]
    {
        get_message("")
    }
    #[cfg(not(kani))]
    {
        let s: String = m.iter().map(|x| char::from_digit(*x, 16).unwrap()).collect();
        get_message(&s)
    }
}
fn same14(v: &Vec<u32>, m: &[u32; 14]) -> bool {
    if v.len() != 14 {
        return false;
    }
    let mut i = 0;
    while i < 14 {
        if v[i] != m[i] {
            return false;
        }
        i += 1;
    }
    true
}
fn same28(v: &Vec<u32>, m: &[u32; 28]) -> bool {
    if v.len() != 28 {
        return false;
    }
    let mut i = 0;
    while i < 28 {
        if v[i] != m[i] {
            return false;
        }
        i += 1;
    }
    true
}



// @harness props=C04,C02 tier=quick cap=900
// all 2^56 frames with DF11: taken <=> the upper 17 bits of the CRC-24 remainder are 0
#[cfg_attr(kani, kani::proof)]
#[cfg_attr(kani, kani::unwind(57))]
#[cfg_attr(kani, kani::stub(crate::decoder::utils::format::clean_squitter, stub_clean_squitter))]
#[cfg_attr(verif_replay, test)]
fn c04_parity_df11() {
    let m = frame14();
    assume(bits(&m, 1, 5) == 11);
    let r = rem56(&m);
    let ok = (r >> 7) == 0;
    let got = offer14(&m);
    vcover!(ok && r != 0, "an all-call reply with a non-zero interrogator code exists");
    vcover!(!ok, "a corrupted DF11 exists");
    vassert!(got.is_some() == ok, "C04: DF11 frame accepted although its parity fails (or rejected although it passes)");
    if let Some(v) = got {
        vassert!(same14(&v, &m), "C02: accepted frame differs from the digits offered");
    }
}

// @harness props=C02,C01 tier=quick cap=900
// all 2^56 14-digit lines, every DF: taken <=> DF < 16 (56-bit format) and, for DF11, parity
#[cfg_attr(kani, kani::proof)]
#[cfg_attr(kani, kani::unwind(57))]
#[cfg_attr(kani, kani::stub(crate::decoder::utils::format::clean_squitter, stub_clean_squitter))]
#[cfg_attr(verif_replay, test)]
fn c02_frame_rule_short() {
    let m = frame14();
    let df = bits(&m, 1, 5) as u32;
    let ok = df < 16 && (df != 11 || (rem56(&m) >> 7) == 0);
    let got = offer14(&m);
    vcover!(df >= 16, "a 14-digit line announcing a 112-bit format exists");
    vcover!(df == 4, "a DF4 exists");
    vassert!(got.is_some() == ok, "C02: 14-digit line taken/rejected against the frame rule (length vs DF, DF11 parity)");
}


// @harness props=C02,C04,C01 tier=quick cap=1200
// lemma: the legacy filter reminder() returns 0 for every 112-bit frame (so cutting it is sound)
#[cfg_attr(kani, kani::proof)]
#[cfg_attr(kani, kani::unwind(30))]
#[cfg_attr(verif_replay, test)]
fn lemma_reminder_is_zero_long() {
    let m = frame28();
    vcover!(bits(&m, 1, 5) == 17, "a DF17");
    vassert!(reminder(&m) == 0, "lemma: reminder() is not the always-zero filter the harnesses assume");
}

// @harness props=C02,C04,C01 tier=quick cap=900
// lemma: reminder() returns 0 for every 56-bit frame
#[cfg_attr(kani, kani::proof)]
#[cfg_attr(kani, kani::unwind(30))]
#[cfg_attr(verif_replay, test)]
fn lemma_reminder_is_zero_short() {
    let m = frame14();
    vcover!(bits(&m, 1, 5) == 11, "a DF11");
    vassert!(reminder(&m) == 0, "lemma: reminder() is not the always-zero filter the harnesses assume");
}

// @harness props=C04 tier=quick cap=1500
// the parity predicate get_message applies, on every 112-bit frame with DF17/18 (array input):
// valid <=> CRC-24 remainder of the whole frame is 0
#[cfg_attr(kani, kani::proof)]
#[cfg_attr(kani, kani::unwind(113))]
#[cfg_attr(verif_replay, test)]
fn c04_parity_predicate_long() {
    let m = frame28();
    let df = bits(&m, 1, 5);
    assume(df == 17 || df == 18);
    let ok = rem112(&m) == 0;
    vcover!(ok && df == 18, "a valid DF18 exists");
    vcover!(!ok, "a corrupted squitter exists");
    vassert!(parity_is_valid(&m) == ok, "C04: parity predicate accepts a DF17/18 frame whose CRC-24 remainder is not 0 (or rejects a valid one)");
}

// ---- 112-bit lines: compositional ---------------------------------------------------------------
// get_message on a symbolic 28-nibble Vec next to CRC-88 and the long-division oracle exhausts memory
// (> 24 GB), while the same predicates on an array take a minute. The long-frame claim is therefore
//   (a) c04_parity_predicate_long / c02_length_predicate: the two predicates equal the oracles on every frame;
//   (b) c02_get_message_structure_long: get_message keeps a 28-digit line iff BOTH predicates hold
//       (predicates replaced by recorders returning arbitrary answers), and returns the digits offered.
// For 56-bit lines the direct harnesses (c04_parity_df11, c02_frame_rule_short) run get_message whole.
pub static mut LEN_RET: bool = false;
pub static mut PAR_RET: bool = false;
pub static mut LEN_CALLS: u32 = 0;
pub static mut PAR_CALLS: u32 = 0;
pub static mut PRED_SEEN: (usize, u32, u32) = (0, 0, 0);
pub fn stub_length_matches_format(m: &[u32]) -> bool {
    unsafe {
        LEN_CALLS += 1;
        PRED_SEEN = (m.len(), m[0], m[27]);
        LEN_RET
    }
}
pub fn stub_parity_is_valid(m: &[u32]) -> bool {
    unsafe {
        PAR_CALLS += 1;
        PRED_SEEN = (m.len(), m[0], m[27]);
        PAR_RET
    }
}

// @harness props=C02,C04,C01 tier=quick cap=900
// get_message keeps a 28-digit line iff the length/DF predicate AND the parity predicate hold, and
// hands back exactly the digits offered (predicates as arbitrary-answer recorders, all 2^112 contents)
#[cfg_attr(kani, kani::proof)]
#[cfg_attr(kani, kani::unwind(30))]
#[cfg_attr(kani, kani::stub(crate::decoder::utils::format::clean_squitter, stub_clean_squitter))]
#[cfg_attr(kani, kani::stub(crate::decoder::utils::crc::reminder, stub_reminder))]
#[cfg_attr(kani, kani::stub(crate::decoder::utils::crc::length_matches_format, stub_length_matches_format))]
#[cfg_attr(kani, kani::stub(crate::decoder::utils::crc::parity_is_valid, stub_parity_is_valid))]
#[cfg_attr(verif_replay, test)]
fn c02_get_message_structure_long() {
    let m = frame28();
    let (l, p) = (any_bool(), any_bool());
    unsafe {
        LEN_RET = l;
        PAR_RET = p;
    }
    let got = offer28(&m);
    #[cfg(kani)]
    {
        vcover!(l && p, "both predicates hold");
        vcover!(l && !p, "parity fails");
        vassert!(got.is_some() == (l && p), "C02/C04: get_message does not apply both the length/DF rule and the parity rule to a 28-digit line");
        unsafe {
            if l && p {
                vassert!(PRED_SEEN == (28, m[0], m[27]), "C02: the rules are not evaluated on the digits of the line");
            }
        }
    }
    #[cfg(not(kani))]
    {
        // native replay: no recorders; compare with the oracles directly
        vassert!(got.is_some() == frame_rule(&m), "C02/C04: 28-digit line taken/rejected against the frame rule");
    }
    if let Some(v) = got {
        vassert!(same28(&v, &m), "C02: accepted frame differs from the digits offered");
    }
}

// @harness props=C02,C01 tier=quick cap=600
// the length/DF predicate on every 56-bit and every 112-bit frame: holds <=> (DF < 16) == (56 bits)
#[cfg_attr(kani, kani::proof)]
#[cfg_attr(kani, kani::unwind(30))]
#[cfg_attr(verif_replay, test)]
fn c02_length_predicate() {
    let s = frame14();
    let l = frame28();
    vcover!(bits(&s, 1, 5) == 17, "a short frame announcing DF17");
    vcover!(bits(&l, 1, 5) == 15, "a long frame announcing DF15");
    vcover!(bits(&l, 1, 5) == 16, "a long frame announcing DF16");
    vassert!(length_matches_format(&s) == (bits(&s, 1, 5) < 16), "C02: 56-bit frame accepted/rejected against its DF");
    vassert!(length_matches_format(&l) == (bits(&l, 1, 5) >= 16), "C02: 112-bit frame accepted/rejected against its DF");
}

// @harness props=C04,C02 tier=quick cap=900
// the parity predicate leaves every non-squitter format alone (DF other than 11/17/18, both lengths)
#[cfg_attr(kani, kani::proof)]
#[cfg_attr(kani, kani::unwind(113))]
#[cfg_attr(verif_replay, test)]
fn c04_parity_predicate_other_formats() {
    let s = frame14();
    let l = frame28();
    let (ds, dl) = (bits(&s, 1, 5), bits(&l, 1, 5));
    assume(ds != 11 && ds != 17 && ds != 18 && dl != 11 && dl != 17 && dl != 18);
    vcover!(dl == 20, "a DF20");
    vassert!(parity_is_valid(&s) && parity_is_valid(&l), "C02: a reply format without a parity-only field is rejected by the parity rule");
}
