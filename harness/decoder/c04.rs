//! C04 squitter parity and C02(c) the frame rule, decided on `get_message` itself: the text
//! cleaner is replaced by a stub that hands `get_message` an arbitrary nibble vector, so whatever
//! filters `get_message` applies run on all 2^56 / 2^112 contents.
use super::super::*;
use super::rows::*;
use crate::verif::rt::*;
use crate::verif::spec::*;

pub static mut STUB_FRAME: [u32; 28] = [0; 28];
pub static mut STUB_LEN: usize = 0;

/// stands for "a line whose hex digits are exactly this frame"
pub fn stub_clean_squitter(_line: &str) -> Option<Vec<u32>> {
    unsafe {
        if STUB_LEN == 14 {
            Some(STUB_FRAME[..14].to_vec())
        } else {
            Some(STUB_FRAME[..28].to_vec())
        }
    }
}

/// `reminder()` (an always-zero legacy filter in get_message) is cut in the 112-bit harnesses: its
/// Vec<u8> juggling next to CRC-88 exhausts memory. The lemmas `lemma_reminder_is_zero_*` decide
/// separately that it returns 0 for every frame, so the cut does not change get_message.
pub fn stub_reminder(_m: &[u32]) -> u32 {
    0
}

pub fn offer14(m: &[u32; 14]) -> Option<Vec<u32>> {
    unsafe {
        let mut i = 0;
        while i < 14 {
            STUB_FRAME[i] = m[i];
            i += 1;
        }
        STUB_LEN = 14;
    }
    #[cfg(kani)]
    {
        get_message("")
    }
    #[cfg(not(kani))]
    {
        // native replay: the real cleaner runs on the frame written as hex text
        let s: String = m.iter().map(|x| char::from_digit(*x, 16).unwrap()).collect();
        get_message(&s)
    }
}
pub fn offer28(m: &[u32; 28]) -> Option<Vec<u32>> {
    unsafe {
        let mut i = 0;
        while i < 28 {
            STUB_FRAME[i] = m[i];
            i += 1;
        }
        STUB_LEN = 28;
    }
    #[cfg(kani)]
    {
        get_message("")
    }
    #[cfg(not(kani))]
    {
        let s: String = m.iter().map(|x| char::from_digit(*x, 16).unwrap()).collect();
        get_message(&s)
    }
}
pub fn same14(v: &Vec<u32>, m: &[u32; 14]) -> bool {
    if v.len() != 14 {
        return false;
    }
    let mut i = 0;
    while i < 14 {
        if v[i] != m[i] {
            return false;
        }
        i += 1;
    }
    true
}
pub fn same28(v: &Vec<u32>, m: &[u32; 28]) -> bool {
    if v.len() != 28 {
        return false;
    }
    let mut i = 0;
    while i < 28 {
        if v[i] != m[i] {
            return false;
        }
        i += 1;
    }
    true
}



// @harness props=C04,C02 tier=quick cap=900
// all 2^56 frames with DF11: taken <=> the upper 17 bits of the CRC-24 remainder are 0
#[cfg_attr(kani, kani::proof)]
#[cfg_attr(kani, kani::unwind(57))]
#[cfg_attr(kani, kani::stub(crate::decoder::utils::format::clean_squitter, stub_clean_squitter))]
#[cfg_attr(verif_replay, test)]
fn c04_parity_df11() {
    let m = frame14();
    assume(bits(&m, 1, 5) == 11);
    let r = rem56(&m);
    let ok = (r >> 7) == 0;
    let got = offer14(&m);
    vcover!(ok && r != 0, "an all-call reply with a non-zero interrogator code exists");
    vcover!(!ok, "a corrupted DF11 exists");
    vassert!(got.is_some() == ok, "C04: DF11 frame accepted although its parity fails (or rejected although it passes)");
    if let Some(v) = got {
        vassert!(same14(&v, &m), "C02: accepted frame differs from the digits offered");
    }
}

// @harness props=C02,C01 tier=quick cap=900
// all 2^56 14-digit lines, every DF: taken <=> DF < 16 (56-bit format) and, for DF11, parity
#[cfg_attr(kani, kani::proof)]
#[cfg_attr(kani, kani::unwind(57))]
#[cfg_attr(kani, kani::stub(crate::decoder::utils::format::clean_squitter, stub_clean_squitter))]
#[cfg_attr(verif_replay, test)]
fn c02_frame_rule_short() {
    let m = frame14();
    let df = bits(&m, 1, 5) as u32;
    let ok = df < 16 && (df != 11 || (rem56(&m) >> 7) == 0);
    let got = offer14(&m);
    vcover!(df >= 16, "a 14-digit line announcing a 112-bit format exists");
    vcover!(df == 4, "a DF4 exists");
    vassert!(got.is_some() == ok, "C02: 14-digit line taken/rejected against the frame rule (length vs DF, DF11 parity)");
}


// @harness props=C02,C04,C01 tier=quick cap=1200
// lemma: the legacy filter reminder() returns 0 for every 112-bit frame (so cutting it is sound)
#[cfg_attr(kani, kani::proof)]
#[cfg_attr(kani, kani::unwind(30))]
#[cfg_attr(verif_replay, test)]
fn lemma_reminder_is_zero_long() {
    let m = frame28();
    vcover!(bits(&m, 1, 5) == 17, "a DF17");
    vassert!(reminder(&m) == 0, "lemma: reminder() is not the always-zero filter the harnesses assume");
}

// @harness props=C02,C04,C01 tier=quick cap=900
// lemma: reminder() returns 0 for every 56-bit frame
#[cfg_attr(kani, kani::proof)]
#[cfg_attr(kani, kani::unwind(30))]
#[cfg_attr(verif_replay, test)]
fn lemma_reminder_is_zero_short() {
    let m = frame14();
    vcover!(bits(&m, 1, 5) == 11, "a DF11");
    vassert!(reminder(&m) == 0, "lemma: reminder() is not the always-zero filter the harnesses assume");
}

// @harness props=C02 tier=thorough cap=5400 mem=30
// TEXT LEVEL, short lines: every line of 15 ASCII bytes through the real `clean_squitter`: it yields
// digits iff exactly 14 of the bytes are hexadecimal digits, and then those digits in order (either
// letter case, any single decoration byte at any position)
#[cfg_attr(kani, kani::proof)]
#[cfg_attr(kani, kani::unwind(17))]
#[cfg_attr(verif_replay, test)]
fn c02_text_15_bytes() {
    let mut b = [0u8; 15];
    let mut i = 0;
    while i < 15 {
        b[i] = any_u8();
        assume(b[i] < 128);
        i += 1;
    }
    let s = unsafe { std::str::from_utf8_unchecked(&b) };
    let got = clean_squitter(s);
    // reference: hex digits in order
    let mut want = [0u32; 15];
    let mut n = 0;
    let mut i = 0;
    while i < 15 {
        let c = b[i];
        let d = if c >= b'0' && c <= b'9' {
            Some((c - b'0') as u32)
        } else if c >= b'a' && c <= b'f' {
            Some((c - b'a') as u32 + 10)
        } else if c >= b'A' && c <= b'F' {
            Some((c - b'A') as u32 + 10)
        } else {
            None
        };
        if let Some(d) = d {
            want[n] = d;
            n += 1;
        }
        i += 1;
    }
    vcover!(n == 14, "a line with exactly 14 digits and one decoration byte");
    vcover!(n == 15, "15 digits");
    vcover!(n == 13, "13 digits");
    match got {
        Some(v) => {
            vassert!(n == 14 && v.len() == 14, "C02: a 15-byte line is taken as a frame although it does not hold exactly 14 hex digits");
            let mut k = 0;
            while k < 14 {
                vassert!(v[k] == want[k], "C02: the frame is not the line's hex digits in order");
                k += 1;
            }
        }
        None => {
            vassert!(n != 14, "C02: a line holding exactly 14 hex digits is not taken as a frame");
        }
    }
}
