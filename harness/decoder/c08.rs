//! C08 (i) pairing guard: the history/time part of the position property as a row step.
//! TC 9-18 squitter on an arbitrary row with arbitrary stored CPR slots and symbolic slot ages;
//! `cpr_location` replaced by a recorder returning an arbitrary result (its arithmetic is decided
//! by the leaf lemmas in harness/position/), observer and haversine replaced by recorders.
use super::super::*;
use super::rows::*;
use crate::verif::rt::*;
use crate::verif::spec::*;

fn draw_position_env() {
    let some = any_bool();
    let la = any_f64();
    let lo = any_f64();
    assume(la >= -400.0 && la <= 400.0 && lo >= -400.0 && lo <= 400.0);
    let osome = any_bool();
    let ola = any_f64();
    let olo = any_f64();
    assume(ola >= -90.0 && ola <= 90.0 && olo >= -180.0 && olo <= 180.0);
    let h = any_f64();
    assume(h >= 0.0 && h <= 20100.0);
    unsafe {
        CPRLOC_RET = if some { Some((la, lo)) } else { None };
        CPRLOC_CALLS = 0;
        OBSERVER = if osome { Some((ola, olo)) } else { None };
        HAV_RET = h;
        HAV_CALLS = 0;
    }
}

fn age(t: chrono::DateTime<chrono::Utc>) -> i64 {
    now().signed_duration_since(t).num_seconds()
}

macro_rules! pairing {
    ($name:ident, $tc:expr, $f:expr) => {
        #[cfg_attr(kani, kani::proof)]
        #[cfg_attr(kani, kani::unwind(33))]
        #[cfg_attr(kani, kani::stub(chrono::Utc::now, crate::verif::rt::stub_now))]
        #[cfg_attr(kani, kani::stub(crate::decoder::get_downlink_format, super::rows::stub_get_df))]
        #[cfg_attr(kani, kani::stub(crate::decoder::adsb::icao::get_icao, super::rows::stub_get_icao))]
        #[cfg_attr(kani, kani::stub(crate::decoder::utils::get_message_type, super::rows::stub_get_tc))]
        #[cfg_attr(kani, kani::stub(crate::decoder::adsb::position::cpr_location, super::rows::stub_cpr_location))]
        #[cfg_attr(kani, kani::stub(crate::decoder::adsb::position::cpr, super::rows::stub_cpr))]
        #[cfg_attr(kani, kani::stub(crate::decoder::observer::get_observer_coords, super::rows::stub_observer))]
        #[cfg_attr(kani, kani::stub(crate::decoder::plane::update_position::haversine, super::rows::stub_haversine))]
        #[cfg_attr(kani, kani::stub(crate::decoder::adsb::ais::ais, super::rows::stub_ais))]
        #[cfg_attr(verif_replay, test)]
        fn $name() {
            let m = frame28();
            pin_df(&m, 17);
            pin_tc(&m, $tc);
            pin_f(&m, $f);
            let use_update = any_bool();
            let relaxed = any_bool();
            draw_position_env();
            let mut p = any_row();
            let Some((df, icao)) = accepted(&m) else { return };
            p.icao = icao;
            let before = clone_row(&p);
            apply(&mut p, &m, df, use_update, relaxed);

            let f: usize = $f;
            let (yz, xz) = (bits(&m, 55, 71) as u32, bits(&m, 72, 88) as u32);
            let o = 1 - f;
            // slot bookkeeping
            vassert!(p.cpr_lat[f] == yz && p.cpr_lon[f] == xz, "C08: the squitter's CPR fields are not stored in the slot of its parity");
            vassert!(age(p.cpr_time[f]) == 0, "C08: the receive time of the stored CPR frame is not 'now'");
            vassert!(p.cpr_lat[o] == before.cpr_lat[o] && p.cpr_lon[o] == before.cpr_lon[o] && p.cpr_time[o] == before.cpr_time[o], "C08: the slot of the other parity was disturbed");
            // pairing
            let other_age = age(before.cpr_time[o]);
            let pair = yz != 0 && xz != 0 && before.cpr_lat[o] != 0 && before.cpr_lon[o] != 0 && other_age < 10;
            #[cfg(kani)]
            let ret = unsafe { CPRLOC_RET };
            #[cfg(not(kani))]
            let ret = cpr_location(&p.cpr_lat, &p.cpr_lon, f as u32, 1);
            let good = match ret {
                Some((la, lo)) => la >= -90.0 && la <= 90.0 && lo >= -180.0 && lo <= 180.0,
                None => false,
            };
            vcover!(pair && good && use_update, "valid pair commits a position (-U)");
            vcover!(pair && good && !use_update, "valid pair commits a position (default path)");
            vcover!(!pair && other_age == 10 && yz != 0 && xz != 0 && before.cpr_lat[o] != 0 && before.cpr_lon[o] != 0, "other frame exactly 10 s old");
            vcover!(pair && other_age == 9, "other frame 9 s old");
            vcover!(pair && !good && ret.is_some(), "decode out of range");
            if pair && good {
                let (la, lo) = ret.unwrap();
                vassert!(feq(p.lat, la) && feq(p.lon, lo), "C08: a valid even/odd pair less than 10 s apart did not commit the decoded position");
                vassert!(p.position_timestamp.is_some() && age(p.position_timestamp.unwrap()) == 0, "C08: position time stamp not refreshed");
                #[cfg(kani)]
                unsafe {
                    vassert!(CPRLOC_CALLS == 1 && CPRLOC_ARGS.0 == p.cpr_lat && CPRLOC_ARGS.1 == p.cpr_lon && CPRLOC_ARGS.2 == f as u32 && CPRLOC_ARGS.3 == 1,
                        "C08: the decoder is not called with the two stored frames, the newer parity and the airborne coefficient");
                    match OBSERVER {
                        Some((ola, olo)) => {
                            vassert!(HAV_CALLS == 1 && feq(HAV_ARGS.0, la) && feq(HAV_ARGS.1, lo) && feq(HAV_ARGS.2, ola) && feq(HAV_ARGS.3, olo), "C08: distance is not computed from the committed position to the observer");
                            vassert!(ofeq(p.distance_from_observer, Some(HAV_RET)), "C08: distance column is not the great-circle distance to the observer");
                        }
                        None => {
                            vassert!(ofeq(p.distance_from_observer, before.distance_from_observer), "C08: distance changed without an observer");
                        }
                    }
                }
            } else {
                vassert!(
                    feq(p.lat, before.lat) && feq(p.lon, before.lon) && ofeq(p.distance_from_observer, before.distance_from_observer) && p.position_timestamp == before.position_timestamp,
                    "C08: the shown position changed without a valid even/odd pair less than 10 s apart"
                );
            }
        }
    };
}
// @harness name=c08_pairing_tc11_even props=C08,C19:thorough tier=quick cap=1500
// pairing guard, TC11, even frame arrives (odd slot older), -U/-R symbolic, slot ages symbolic around the 10 s limit
pairing!(c08_pairing_tc11_even, 11, 0);
// @harness name=c08_pairing_tc11_odd props=C08,C19:thorough tier=quick cap=1500
// pairing guard, TC11, odd frame arrives
pairing!(c08_pairing_tc11_odd, 11, 1);
// @harness name=c08_pairing_tc9_odd props=C08 tier=thorough cap=1500
// pairing guard, TC9, odd frame arrives
pairing!(c08_pairing_tc9_odd, 9, 1);
// @harness name=c08_pairing_tc18_even props=C08 tier=thorough cap=1500
// pairing guard, TC18, even frame arrives
pairing!(c08_pairing_tc18_even, 18, 0);
