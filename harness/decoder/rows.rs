//! Arbitrary aircraft rows (every field symbolic under a stated representation invariant) and
//! field-group comparison, used by the row-step ("one inductive step from an arbitrary row")
//! harnesses.
use super::super::*;
use crate::verif::rt::*;
use chrono::{DateTime, Utc};

fn opt_u32(max: u32) -> Option<u32> {
    let some = any_bool();
    let v = any_below(max);
    if some { Some(v) } else { None }
}
fn opt_i32(lo: i32, hi: i32) -> Option<i32> {
    let some = any_bool();
    let v = any_i32();
    assume(v >= lo && v <= hi);
    if some { Some(v) } else { None }
}
fn f64_in(lo: f64, hi: f64) -> f64 {
    let v = any_f64();
    assume(v >= lo && v <= hi); // excludes NaN
    v
}
fn opt_f64(lo: f64, hi: f64) -> Option<f64> {
    let some = any_bool();
    let v = f64_in(lo, hi);
    if some { Some(v) } else { None }
}
fn pick_char(a: char, b: char, c: char) -> char {
    match any_below(3) {
        0 => a,
        1 => b,
        _ => c,
    }
}
fn opt_stamp() -> Option<DateTime<Utc>> {
    let some = any_bool();
    let age = any_i64();
    assume(age >= 0 && age < 40000);
    if some { Some(stamp(age)) } else { None }
}

/// the callsign a pre-existing row may hold: none, or one of two fixed strings (a fully symbolic
/// String is out of reach: 65 GB). What matters for the step lemmas is whether it is replaced.
fn any_ais() -> Option<String> {
    match any_below(3) {
        0 => None,
        1 => Some(String::from("OLD123")),
        _ => Some(String::from("X")),
    }
}

/// Representation invariant of a row that some history of frames can have produced (stated in
/// DESIGN.md): address 24 bit non-zero; CA < 8; altitude < 100000; squawk <= 7777 octal-digit
/// range not required; CPR fields < 2^17; lat/lon finite and in range; stamps not in the future
/// (ages 0..40000 s).
pub fn any_row() -> Plane {
    let mut p = Plane::new();
    p.icao = any_below(1 << 24);
    assume(p.icao != 0);
    p.reg = if any_bool() { "IE" } else { "??" };
    p.capability = (
        any_below(8),
        Capability::from_data(any_below(1 << 24), any_bool(), any_bool(), any_bool(), any_bool(), any_bool()),
    );
    p.category = (any_below(32), any_below(8));
    p.ais = any_ais();
    p.altitude = opt_u32(100000);
    p.altitude_gnss = opt_u32(200000);
    p.altitude_source = pick_char(' ', '\u{2070}', '"');
    p.selected_altitude = opt_u32(65536);
    p.barometric_pressure_setting = opt_u32(1300);
    p.target_altitude_source = pick_char(' ', '\u{2081}', '\u{2083}');
    p.squawk = opt_u32(7778);
    p.surveillance_status = pick_char(' ', 'N', 'S');
    p.threat_encounter = if any_bool() { Some('\u{2071}') } else { None };
    p.vrate = opt_i32(-32768, 32768);
    p.vrate_source = pick_char('_', ' ', '\u{2086}');
    p.cpr_lat = [any_below(1 << 17), any_below(1 << 17)];
    p.cpr_lon = [any_below(1 << 17), any_below(1 << 17)];
    let (a0, a1) = (any_i64(), any_i64());
    assume(a0 >= 0 && a0 < 40000 && a1 >= 0 && a1 < 40000);
    p.cpr_time = [stamp(a0), stamp(a1)];
    p.lat = f64_in(-90.0, 90.0);
    p.lon = f64_in(-180.0, 180.0);
    p.distance_from_observer = opt_f64(0.0, 21000.0);
    p.grspeed = opt_u32(5000);
    p.true_airspeed = opt_u32(2048);
    p.indicated_airspeed = opt_u32(1024);
    p.mach_number = opt_f64(0.0, 4.1);
    p.ground_movement = opt_f64(0.0, 200.0);
    p.turn = any_below(4);
    p.track = opt_u32(361);
    p.track_source = pick_char(' ', '\u{2081}', '\u{2085}');
    p.heading = opt_u32(1024);
    p.heading_source = pick_char(' ', '\u{2083}', '\u{2086}');
    p.roll_angle = opt_i32(-90, 90);
    p.track_angle_rate = opt_i32(-16, 16);
    p.bds_5_0_timestamp = opt_stamp();
    p.temperature = opt_f64(-128.0, 128.0);
    p.wind = if any_bool() { Some((any_below(512), any_below(360))) } else { None };
    p.turbulence = opt_u32(4);
    p.humidity = opt_u32(101);
    p.pressure = opt_u32(2048);
    let age = any_i64();
    assume(age >= 0 && age < 40000);
    p.timestamp = stamp(age);
    p.position_timestamp = opt_stamp();
    p.track_timestamp = opt_stamp();
    p.heading_timestamp = opt_stamp();
    p.last_type_code = any_below(32);
    p.last_df = any_below(32);
    p.adsb_version = opt_u32(8);
    p
}

pub fn clone_row(p: &Plane) -> Plane {
    Plane {
        icao: p.icao,
        capability: (
            p.capability.0,
            Capability::from_data(
                p.capability.1.flags,
                p.capability.1.bds20,
                p.capability.1.bds40,
                p.capability.1.bds44,
                p.capability.1.bds50,
                p.capability.1.bds60,
            ),
        ),
        category: p.category,
        reg: p.reg,
        ais: p.ais.clone(),
        altitude: p.altitude,
        altitude_gnss: p.altitude_gnss,
        altitude_source: p.altitude_source,
        selected_altitude: p.selected_altitude,
        barometric_pressure_setting: p.barometric_pressure_setting,
        target_altitude_source: p.target_altitude_source,
        squawk: p.squawk,
        surveillance_status: p.surveillance_status,
        threat_encounter: p.threat_encounter,
        vrate: p.vrate,
        vrate_source: p.vrate_source,
        cpr_lat: p.cpr_lat,
        cpr_lon: p.cpr_lon,
        cpr_time: p.cpr_time,
        lat: p.lat,
        lon: p.lon,
        distance_from_observer: p.distance_from_observer,
        grspeed: p.grspeed,
        true_airspeed: p.true_airspeed,
        indicated_airspeed: p.indicated_airspeed,
        mach_number: p.mach_number,
        ground_movement: p.ground_movement,
        turn: p.turn,
        track: p.track,
        track_source: p.track_source,
        heading: p.heading,
        heading_source: p.heading_source,
        roll_angle: p.roll_angle,
        track_angle_rate: p.track_angle_rate,
        bds_5_0_timestamp: p.bds_5_0_timestamp,
        temperature: p.temperature,
        wind: p.wind,
        turbulence: p.turbulence,
        humidity: p.humidity,
        pressure: p.pressure,
        timestamp: p.timestamp,
        position_timestamp: p.position_timestamp,
        track_timestamp: p.track_timestamp,
        heading_timestamp: p.heading_timestamp,
        last_type_code: p.last_type_code,
        last_df: p.last_df,
        adsb_version: p.adsb_version,
    }
}

pub fn feq(a: f64, b: f64) -> bool {
    a.to_bits() == b.to_bits()
}
pub fn ofeq(a: Option<f64>, b: Option<f64>) -> bool {
    match (a, b) {
        (None, None) => true,
        (Some(x), Some(y)) => feq(x, y),
        _ => false,
    }
}
pub fn str_eq(a: &str, b: &str) -> bool {
    let (a, b) = (a.as_bytes(), b.as_bytes());
    if a.len() != b.len() {
        return false;
    }
    let mut i = 0;
    while i < a.len() {
        if a[i] != b[i] {
            return false;
        }
        i += 1;
    }
    true
}
pub fn ais_eq(a: &Option<String>, b: &Option<String>) -> bool {
    match (a, b) {
        (None, None) => true,
        (Some(x), Some(y)) => str_eq(x.as_str(), y.as_str()),
        _ => false,
    }
}

// field groups -----------------------------------------------------------------------------
pub const F_CAP0: u64 = 1 << 0;
pub const F_CAP1: u64 = 1 << 1;
pub const F_CATEGORY: u64 = 1 << 2;
pub const F_AIS: u64 = 1 << 3;
pub const F_ALT: u64 = 1 << 4;
pub const F_ALT_GNSS: u64 = 1 << 5;
pub const F_ALT_SRC: u64 = 1 << 6;
pub const F_SELALT: u64 = 1 << 7; // selected altitude, baro setting, target source
pub const F_SQUAWK: u64 = 1 << 8;
pub const F_SURV: u64 = 1 << 9;
pub const F_THREAT: u64 = 1 << 10;
pub const F_VRATE: u64 = 1 << 11;
pub const F_VRATE_SRC: u64 = 1 << 12;
pub const F_CPR: u64 = 1 << 13; // cpr_lat, cpr_lon, cpr_time
pub const F_POS: u64 = 1 << 14; // lat, lon, distance, position_timestamp
pub const F_GS: u64 = 1 << 15;
pub const F_TAS: u64 = 1 << 16;
pub const F_IAS_MACH: u64 = 1 << 17;
pub const F_GNDMOV: u64 = 1 << 18;
pub const F_TRACK: u64 = 1 << 19;
pub const F_TRACK_SRC: u64 = 1 << 20; // track_source, track_timestamp
pub const F_HDG: u64 = 1 << 21;
pub const F_HDG_SRC: u64 = 1 << 22; // heading_source, heading_timestamp
pub const F_ROLL_RATE: u64 = 1 << 23; // roll_angle, track_angle_rate, bds_5_0_timestamp
pub const F_METEO: u64 = 1 << 24;
pub const F_ADSB_VER: u64 = 1 << 25;
pub const F_BOOK: u64 = 1 << 26; // timestamp, last_df, last_type_code (bookkeeping)
/// identity (address, country) and `turn` are never written by any frame
pub const F_NONE: u64 = 0;

/// every field group not in `allowed` is identical in `a` (before) and `b` (after)
pub fn assert_unchanged_except(a: &Plane, b: &Plane, allowed: u64) {
    vassert!(a.icao == b.icao && str_eq(a.reg, b.reg) && a.turn == b.turn, "row identity (address/country) changed");
    if allowed & F_CAP0 == 0 {
        vassert!(a.capability.0 == b.capability.0, "transponder capability (CA) changed by a frame that does not carry it");
    }
    if allowed & F_CAP1 == 0 {
        vassert!(
            a.capability.1.flags == b.capability.1.flags
                && a.capability.1.bds20 == b.capability.1.bds20
                && a.capability.1.bds40 == b.capability.1.bds40
                && a.capability.1.bds44 == b.capability.1.bds44
                && a.capability.1.bds50 == b.capability.1.bds50
                && a.capability.1.bds60 == b.capability.1.bds60,
            "BDS 1,7 capability flags changed by a frame that does not carry them"
        );
    }
    if allowed & F_CATEGORY == 0 {
        vassert!(a.category == b.category, "emitter category changed by a frame that does not carry it");
    }
    if allowed & F_AIS == 0 {
        vassert!(ais_eq(&a.ais, &b.ais), "callsign changed by a frame that does not carry it");
    }
    if allowed & F_ALT == 0 {
        vassert!(a.altitude == b.altitude, "altitude changed by a frame that does not carry it");
    }
    if allowed & F_ALT_GNSS == 0 {
        vassert!(a.altitude_gnss == b.altitude_gnss, "GNSS altitude changed by a frame that does not carry it");
    }
    if allowed & F_ALT_SRC == 0 {
        vassert!(a.altitude_source == b.altitude_source, "altitude source changed by a frame that does not carry it");
    }
    if allowed & F_SELALT == 0 {
        vassert!(
            a.selected_altitude == b.selected_altitude
                && a.barometric_pressure_setting == b.barometric_pressure_setting
                && a.target_altitude_source == b.target_altitude_source,
            "BDS 4,0 data changed by a frame that does not carry them"
        );
    }
    if allowed & F_SQUAWK == 0 {
        vassert!(a.squawk == b.squawk, "squawk changed by a frame that does not carry it");
    }
    if allowed & F_SURV == 0 {
        vassert!(a.surveillance_status == b.surveillance_status, "surveillance status changed by a frame that does not carry it");
    }
    if allowed & F_THREAT == 0 {
        vassert!(a.threat_encounter == b.threat_encounter, "ACAS threat flag changed by a frame that does not carry it");
    }
    if allowed & F_VRATE == 0 {
        vassert!(a.vrate == b.vrate, "vertical rate changed by a frame that does not carry it");
    }
    if allowed & F_VRATE_SRC == 0 {
        vassert!(a.vrate_source == b.vrate_source, "vertical rate source changed by a frame that does not carry it");
    }
    if allowed & F_CPR == 0 {
        vassert!(
            a.cpr_lat == b.cpr_lat && a.cpr_lon == b.cpr_lon && a.cpr_time[0] == b.cpr_time[0] && a.cpr_time[1] == b.cpr_time[1],
            "stored CPR frames changed by a frame that is not a position squitter"
        );
    }
    if allowed & F_POS == 0 {
        vassert!(
            feq(a.lat, b.lat)
                && feq(a.lon, b.lon)
                && ofeq(a.distance_from_observer, b.distance_from_observer)
                && a.position_timestamp == b.position_timestamp,
            "position changed by a frame that does not carry it"
        );
    }
    if allowed & F_GS == 0 {
        vassert!(a.grspeed == b.grspeed, "ground speed changed by a frame that does not carry it");
    }
    if allowed & F_TAS == 0 {
        vassert!(a.true_airspeed == b.true_airspeed, "true airspeed changed by a frame that does not carry it");
    }
    if allowed & F_IAS_MACH == 0 {
        vassert!(
            a.indicated_airspeed == b.indicated_airspeed && ofeq(a.mach_number, b.mach_number),
            "IAS/Mach changed by a frame that does not carry them"
        );
    }
    if allowed & F_GNDMOV == 0 {
        vassert!(ofeq(a.ground_movement, b.ground_movement), "ground movement changed by a frame that does not carry it");
    }
    if allowed & F_TRACK == 0 {
        vassert!(a.track == b.track, "track changed by a frame that does not carry it");
    }
    if allowed & F_TRACK_SRC == 0 {
        vassert!(a.track_source == b.track_source && a.track_timestamp == b.track_timestamp, "track source changed by a frame that does not carry it");
    }
    if allowed & F_HDG == 0 {
        vassert!(a.heading == b.heading, "heading changed by a frame that does not carry it");
    }
    if allowed & F_HDG_SRC == 0 {
        vassert!(a.heading_source == b.heading_source && a.heading_timestamp == b.heading_timestamp, "heading source changed by a frame that does not carry it");
    }
    if allowed & F_ROLL_RATE == 0 {
        vassert!(
            a.roll_angle == b.roll_angle && a.track_angle_rate == b.track_angle_rate && a.bds_5_0_timestamp == b.bds_5_0_timestamp,
            "BDS 5,0 roll / track rate changed by a frame that does not carry them"
        );
    }
    if allowed & F_METEO == 0 {
        vassert!(
            ofeq(a.temperature, b.temperature) && a.wind == b.wind && a.turbulence == b.turbulence && a.humidity == b.humidity && a.pressure == b.pressure,
            "meteo data changed by a frame that does not carry them"
        );
    }
    if allowed & F_ADSB_VER == 0 {
        vassert!(a.adsb_version == b.adsb_version, "ADS-B version changed by a frame that does not carry it");
    }
    if allowed & F_BOOK == 0 {
        vassert!(a.timestamp == b.timestamp && a.last_df == b.last_df && a.last_type_code == b.last_type_code, "bookkeeping changed");
    }
}

/// The downlink object `read_lines` builds for a frame, re-wrapped so that its variant is a
/// syntactic constant for the symbolic executor. `class`: 0 = short reply (DF0-16, and DF18/19/22+),
/// 1 = extended squitter (DF17), 2 = Comm-B (DF20/21). A frame that decodes into another variant than
/// the class of its (pinned) DF fails the assertion, so the cut is checked.
pub fn downlink_of(m: &[u32], class: u32) -> DF {
    match DF::from_message(m) {
        Ok(DF::SRT(v)) if class == 0 => DF::SRT(v),
        Ok(DF::EXT(v)) if class == 1 => DF::EXT(v),
        Ok(DF::MDS(v)) if class == 2 => DF::MDS(v),
        _ => {
            vassert!(false, "frame did not decode into the downlink class of its DF");
            DF::SRT(Srt::new())
        }
    }
}
pub fn class_of(df: u32) -> u32 {
    match df {
        17 => 1,
        20 | 21 => 2,
        _ => 0,
    }
}

/// apply one accepted frame to an existing row exactly as `Planes::update_aircraft` does for
/// the option set (`-U` = use_update, `-R` = relaxed). `df` must be the pinned constant.
pub fn apply(p: &mut Plane, m: &[u32], df: u32, use_update: bool, relaxed: bool) {
    if df < 20 && !use_update {
        let dl = downlink_of(m, class_of(df));
        p.update_from_downlink(&dl);
    } else {
        p.update(m, df, relaxed);
    }
}

/// the row an accepted frame creates when its address is not yet in the table
/// (`or_insert(Plane::from_downlink(..))`, whatever the options)
pub fn create(m: &[u32], df: u32, icao: u32) -> Plane {
    let dl = downlink_of(m, class_of(df));
    Plane::from_downlink(&dl, icao)
}

/// what `read_lines` does before touching the table: a frame is applied only when a DF and a
/// non-zero address can be read from it. Returns (df, address).
///
/// Address recovery (AA, or AP xor CRC-24) is decided for every frame by the C03 harnesses. Row-step
/// harnesses are about what the frame does to the row, which does not depend on the address VALUE,
/// so they stub `get_icao` (see `stub_get_icao`): the address is an arbitrary 24-bit value, a zero
/// address drops the frame as in the reader. (CRC-88 next to the Comm-B decoder costs > 25 min / 8 GB.)
/// Native replay has no stubs and computes the real address.
pub static mut PIN_ICAO: u32 = 0;
pub fn stub_get_icao(_m: &[u32], _df: u32) -> Option<u32> {
    let a = unsafe { PIN_ICAO };
    if a == 0 { None } else { Some(a) }
}
pub fn accepted(m: &[u32]) -> Option<(u32, u32)> {
    let df = get_downlink_format(m)?;
    let drawn = any_below(1 << 24);
    unsafe { PIN_ICAO = drawn };
    #[cfg(kani)]
    if matches!(df, 0 | 4 | 5 | 16 | 20 | 21) {
        assume(drawn != 0);
        return Some((df, drawn));
    }
    // AA formats (DF11/17/18): a frame whose AA field is zero is dropped by the reader; keep the domain to
    // accepted frames so that a counterexample also replays natively (where the real get_icao reads AA)
    #[cfg(kani)]
    assume(bits(m, 9, 32) != 0);
    let icao = get_icao(m, df)?;
    Some((df, icao))
}

// ---------------------------------------------------------------------------------------------
// Class pinning. CBMC's symbolic execution only prunes a `match df {..}` arm when `df` is a
// syntactic constant. A class harness therefore (1) assumes the frame's DF (TC) bits equal a
// constant, (2) replaces `get_downlink_format` / `get_message_type` by the stubs below, which
// return the pinned constant and ASSERT that the frame bits agree (so the cut is checked, not
// assumed), and (3) relies on the lemmas `lemma_df_is_bits_1_5_*` / `lemma_tc_is_bits_33_40`
// (harness/decoder/lemmas.rs, run with every property that uses pinning) which decide that the
// real functions return exactly those bit fields for every frame. Native replay uses no stubs.
// ---------------------------------------------------------------------------------------------
pub static mut PIN_DF: u32 = 99;
pub static mut PIN_TC: u32 = 99;
/// optional pin of the 3-bit subtype / category field (99 = not pinned)
pub static mut PIN_ST: u32 = 99;
pub fn pin_st(m: &[u32], st: u32) {
    assume(bits(m, 38, 40) as u32 == st);
    unsafe { PIN_ST = st };
}

pub fn pin_df(m: &[u32], df: u32) {
    assume(bits(m, 1, 5) as u32 == df);
    unsafe { PIN_DF = df };
}
pub fn pin_tc(m: &[u32], tc: u32) {
    assume(bits(m, 33, 37) as u32 == tc);
    unsafe { PIN_TC = tc };
}
pub fn stub_get_df(m: &[u32]) -> Option<u32> {
    let d = unsafe { PIN_DF };
    assert!(bits(m, 1, 5) as u32 == d, "pinned DF differs from the frame's DF bits");
    Some(d)
}
pub fn stub_get_tc(m: &[u32]) -> (u32, u32) {
    let t = unsafe { PIN_TC };
    assert!(bits(m, 33, 37) as u32 == t, "pinned TC differs from the frame's TC bits");
    let st = unsafe { PIN_ST };
    if st != 99 {
        assert!(m[9] & 7 == st, "pinned subtype differs from the frame's subtype bits");
        return (t, st);
    }
    (t, m[9] & 7)
}

/// Cost control for harnesses that are not about callsign *content*: `ais()` builds a String from
/// eight symbolic characters, which exhausts memory (65 GB) when the whole field is symbolic. The
/// stub returns a fixed marker, so "callsign replaced / not replaced" stays observable. C07's own
/// harnesses run the real `ais`.
pub fn stub_ais(_m: &[u32]) -> Option<String> {
    Some(String::from("@AIS@"))
}

// ---------------------------------------------------------------------------------------------
// Position-decode stubs (harnesses that are not about CPR arithmetic). `cpr_location` is float
// code with a 58-step table loop; its own correctness is decided by the C08 lemmas at the leaves.
// ---------------------------------------------------------------------------------------------
pub static mut CPRLOC_RET: Option<(f64, f64)> = None;
pub static mut CPRLOC_CALLS: u32 = 0;
pub static mut CPRLOC_ARGS: ([u32; 2], [u32; 2], u32, i32) = ([0; 2], [0; 2], 0, 0);
pub fn stub_cpr_location(lat: &[u32; 2], lon: &[u32; 2], form: u32, coeff: i32) -> Option<(f64, f64)> {
    unsafe {
        CPRLOC_CALLS += 1;
        CPRLOC_ARGS = (*lat, *lon, form, coeff);
        CPRLOC_RET
    }
}
pub static mut OBSERVER: Option<(f64, f64)> = None;
pub fn stub_observer() -> Option<(f64, f64)> {
    unsafe { OBSERVER }
}
pub static mut HAV_RET: f64 = 0.0;
pub static mut HAV_ARGS: (f64, f64, f64, f64) = (0.0, 0.0, 0.0, 0.0);
pub static mut HAV_CALLS: u32 = 0;
pub fn stub_haversine(a: f64, b: f64, c: f64, d: f64) -> f64 {
    unsafe {
        HAV_CALLS += 1;
        HAV_ARGS = (a, b, c, d);
        HAV_RET
    }
}

// ---------------------------------------------------------------------------------------------
// CPR parity pinning. `self.cpr_lat[cpr_form as usize] = ..` with a symbolic parity is a
// symbolic-index write into the row struct; CBMC then models the whole row as a byte array and
// every later pointer read from it (callsign String) explodes (> 35 GB). Position-squitter
// harnesses therefore pin the F bit the same way DF/TC are pinned: `cpr()` is replaced by a stub
// returning (pinned F, bits 55-71, bits 72-88) that asserts bit 54 == pinned F; the lemma
// `lemma_cpr_is_bits_54_88` decides that the real `cpr()` returns exactly those fields.
// ---------------------------------------------------------------------------------------------
pub static mut PIN_F: u32 = 99;
pub fn pin_f(m: &[u32], f: u32) {
    assume(bit(m, 54) == f);
    unsafe { PIN_F = f };
}
pub fn stub_cpr(m: &[u32]) -> Option<(u32, u32, u32)> {
    let f = unsafe { PIN_F };
    assert!(bit(m, 54) == f, "pinned CPR parity differs from the frame's F bit");
    Some((f, bits(m, 55, 71) as u32, bits(m, 72, 88) as u32))
}
