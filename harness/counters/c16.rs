//! C16 (counter half): DF counters are exact.
use super::super::*;
use crate::verif::rt::*;

fn get(st: &AppCounters, k: u32) -> Option<i32> {
    st.df_count.get(&k).copied()
}

// @harness props=C16,C01 tier=quick cap=600
// one counting step from an arbitrary counter state (<= 3 distinct DF entries with arbitrary
// counts): the entry of `df` becomes old+1 (1 when absent), every other entry is unchanged
#[cfg_attr(kani, kani::proof)]
#[cfg_attr(kani, kani::unwind(8))]
#[cfg_attr(kani, kani::stub(chrono::Utc::now, crate::verif::rt::stub_now))]
#[cfg_attr(verif_replay, test)]
fn c16_count_step() {
    let (k0, k1, k2) = (any_below(32), any_below(32), any_below(32));
    assume(k0 != k1 && k0 != k2 && k1 != k2);
    let (c0, c1, c2) = (any_i32(), any_i32(), any_i32());
    assume(c0 >= 1 && c0 < 2_000_000_000 && c1 >= 1 && c1 < 2_000_000_000 && c2 >= 1 && c2 < 2_000_000_000);
    let (h0, h1, h2) = (any_bool(), any_bool(), any_bool());
    let df = any_below(32);
    let mut st = AppCounters::from_update_interval(3);
    if h0 {
        st.df_count.insert(k0, c0);
    }
    if h1 {
        st.df_count.insert(k1, c1);
    }
    if h2 {
        st.df_count.insert(k2, c2);
    }
    let n_before = st.df_count.len();
    let old = get(&st, df);
    let (b0, b1, b2) = (get(&st, k0), get(&st, k1), get(&st, k2));
    st.update_count(df);
    vcover!(old.is_none(), "first frame of this DF");
    vcover!(old.is_some() && n_before == 3, "existing entry among three");
    vassert!(get(&st, df) == Some(old.unwrap_or(0) + 1), "C16: DF counter is not the number of counted frames (old+1, 1 for the first)");
    if k0 != df {
        vassert!(get(&st, k0) == b0, "C16: counter of another DF changed");
    }
    if k1 != df {
        vassert!(get(&st, k1) == b1, "C16: counter of another DF changed");
    }
    if k2 != df {
        vassert!(get(&st, k2) == b2, "C16: counter of another DF changed");
    }
    vassert!(st.df_count.len() == n_before + if old.is_none() { 1 } else { 0 }, "C16: number of counted formats wrong");
}

// @harness props=C16,C01 tier=quick cap=600
// three counting steps from the empty state with arbitrary DFs: every count equals the number of
// times its DF was counted, and iteration (the printed order) is ascending in DF
#[cfg_attr(kani, kani::proof)]
#[cfg_attr(kani, kani::unwind(8))]
#[cfg_attr(kani, kani::stub(chrono::Utc::now, crate::verif::rt::stub_now))]
#[cfg_attr(verif_replay, test)]
fn c16_count_three_from_empty() {
    let (d0, d1, d2) = (any_below(32), any_below(32), any_below(32));
    let mut st = AppCounters::from_update_interval(3);
    st.update_count(d0);
    st.update_count(d1);
    st.update_count(d2);
    let n = |d: u32| (d0 == d) as i32 + (d1 == d) as i32 + (d2 == d) as i32;
    vcover!(d0 == d1 && d1 == d2, "same DF three times");
    vcover!(d0 != d1 && d1 != d2 && d0 != d2, "three different DFs");
    vassert!(get(&st, d0) == Some(n(d0)) && get(&st, d1) == Some(n(d1)) && get(&st, d2) == Some(n(d2)), "C16: a DF count differs from the number of frames counted");
    let mut last: Option<u32> = None;
    let mut seen = 0;
    for (k, _) in st.df_count.iter() {
        if let Some(l) = last {
            vassert!(l < *k, "C16: counters are not listed in ascending DF order");
        }
        last = Some(*k);
        seen += 1;
    }
    vassert!(seen == st.df_count.len(), "C16: listing skips a counter");
}
