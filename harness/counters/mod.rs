//! Injected at `src/counters/vh/`: child of `counters`.
#![allow(dead_code, unused_imports, unused_variables, unused_mut, clippy::all)]
mod c16;
