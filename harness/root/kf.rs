//! OVERWRITTEN by the driver on every run from /verif/known_findings.json:
//! one `pub const <KEY>_OPEN: bool` per *open* known finding. A strict harness may assume the
//! listed region away only while the finding is open; the region's witness harness keeps
//! asserting the property on exactly that region.
pub const C05_GILLHAM_OPEN: bool = false;
