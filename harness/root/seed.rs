//! OVERWRITTEN by the driver: the run's VERIF_SEED, for harness families with seeded concrete backgrounds
pub const SEED: u64 = 0;
