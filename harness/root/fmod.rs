//! `kfmod(a, b)`: exact C-`fmod` semantics for the three float `%` sites of the decoder
//! (Kani lowers `f64 % f64` to the IEEE *remainder*, which rounds to nearest: it decides
//! `50.0 % 60.0 == -10.0`). The snapshot rewrite replaces `x % <literal>` by `kfmod(x, literal)`.
//! The shim *asserts* its domain, so a change that feeds it something else is reported, not hidden.
pub static mut KFMOD_LOG: [(f64, f64, f64); 4] = [(0.0, 0.0, 0.0); 4];
pub static mut KFMOD_N: usize = 0;

pub fn kfmod(a: f64, b: f64) -> f64 {
    assert!(b == 59.0 || b == 60.0 || b == 360.0, "kfmod: divisor outside the validated set");
    assert!(a > -16777216.0 && a < 16777216.0, "kfmod: dividend outside +-2^24");
    let ai = a as i64;
    assert!(ai as f64 == a, "kfmod: dividend is not integer-valued");
    let r = (ai % (b as i64)) as f64; // truncated division: sign of the dividend, like fmod
    unsafe {
        if KFMOD_N < 4 {
            KFMOD_LOG[KFMOD_N] = (a, b, r);
            KFMOD_N += 1;
        }
    }
    r
}
