//! Reference oracles, written from the standards (Annex 10 Vol IV, Doc 9871, DO-260B) and
//! independent of the repository's decoders: they read frame bits with `rt::bits`, never with
//! the crate's `range_value`.
use super::rt::{bit, bits};

// ---------------------------------------------------------------------------------------
// CRC-24, generator 0x1FFF409, as the polynomial long division the standard defines
// ---------------------------------------------------------------------------------------
const GEN: [u8; 25] = [
    1, 1, 1, 1, 1, 1, 1, 1, 1, 1, 1, 1, 1, 0, 1, 0, 0, 0, 0, 0, 0, 1, 0, 0, 1,
];

/// remainder of the whole 56-bit frame divided by G (for AP formats this is the address,
/// for PI formats it is 0 / the interrogator code)
pub fn rem56(m: &[u32]) -> u32 {
    let mut b = [0u8; 56];
    let mut i = 0;
    while i < 56 {
        b[i] = bit(m, i + 1) as u8;
        i += 1;
    }
    let mut i = 0;
    while i < 32 {
        if b[i] == 1 {
            let mut k = 0;
            while k < 25 {
                b[i + k] ^= GEN[k];
                k += 1;
            }
        }
        i += 1;
    }
    let mut r: u32 = 0;
    let mut i = 32;
    while i < 56 {
        r = (r << 1) | b[i] as u32;
        i += 1;
    }
    r
}

/// remainder of the whole 112-bit frame divided by G
pub fn rem112(m: &[u32]) -> u32 {
    let mut b = [0u8; 112];
    let mut i = 0;
    while i < 112 {
        b[i] = bit(m, i + 1) as u8;
        i += 1;
    }
    let mut i = 0;
    while i < 88 {
        if b[i] == 1 {
            let mut k = 0;
            while k < 25 {
                b[i + k] ^= GEN[k];
                k += 1;
            }
        }
        i += 1;
    }
    let mut r: u32 = 0;
    let mut i = 88;
    while i < 112 {
        r = (r << 1) | b[i] as u32;
        i += 1;
    }
    r
}

/// the address a frame of format `df` encodes (C03): AA for DF11/17/18, AP xor CRC otherwise
pub fn address56(m: &[u32], df: u32) -> u32 {
    match df {
        11 => bits(m, 9, 32) as u32,
        _ => rem56(m),
    }
}
pub fn address112(m: &[u32], df: u32) -> u32 {
    match df {
        17 | 18 => bits(m, 9, 32) as u32,
        _ => rem112(m),
    }
}

/// C02/C04 frame rule on a nibble vector: length agrees with DF, and squitters pass parity
pub fn frame_rule(m: &[u32]) -> bool {
    let df = (bits(m, 1, 5)) as u32;
    let long = df >= 16;
    if long != (m.len() == 28) {
        return false;
    }
    match df {
        11 => (rem56(m) >> 7) == 0,
        17 | 18 => rem112(m) == 0,
        _ => true,
    }
}

// ---------------------------------------------------------------------------------------
// Altitude codes (Annex 10 Vol IV 3.1.2.6.5.4)
// ---------------------------------------------------------------------------------------
#[derive(Clone, Copy, PartialEq, Eq, Debug)]
pub enum Alt {
    /// a definite altitude in feet
    Ft(i32),
    /// the code carries no altitude (all zero, or an illegal Gillham code)
    NoAlt,
    /// M=1 (metric): unconstrained by the property
    Metric,
}

/// Gillham / Mode C code -> feet, or None for an illegal code.
/// inputs are the individual pulses.
pub fn gillham_ft(
    c1: u32, a1: u32, c2: u32, a2: u32, c4: u32, a4: u32,
    b1: u32, b2: u32, d2: u32, b4: u32, d4: u32,
) -> Option<i32> {
    // 500-ft Gray: D2 D4 A1 A2 A4 B1 B2 B4 (D1 is not transmitted)
    let g = [d2, d4, a1, a2, a4, b1, b2, b4];
    let mut five: i32 = 0;
    let mut acc = 0u32;
    let mut i = 0;
    while i < 8 {
        acc ^= g[i];
        five = (five << 1) | acc as i32;
        i += 1;
    }
    // 100-ft Gray: C1 C2 C4
    let x1 = c1;
    let x2 = x1 ^ c2;
    let x3 = x2 ^ c4;
    let mut one = ((x1 << 2) | (x2 << 1) | x3) as i32;
    if one == 0 || one == 5 || one == 6 {
        // C=000, and the two codes that are not part of the 5-step cycle, are illegal
        return None;
    }
    if one == 7 {
        one = 5;
    }
    if five & 1 == 1 {
        one = 6 - one;
    }
    Some((five * 5 + one - 13) * 100)
}

/// 13-bit AC field (bits 20-32 of DF0/4/16/20): C1 A1 C2 A2 C4 A4 M B1 Q B2 D2 B4 D4
pub fn ac13(m: &[u32]) -> Alt {
    let f = bits(m, 20, 32) as u32;
    let b = |i: u32| (f >> (12 - i)) & 1; // i = 0 is bit 20
    if f == 0 {
        return Alt::NoAlt;
    }
    if b(6) == 1 {
        return Alt::Metric;
    }
    if b(8) == 1 {
        // N = the 11 bits that remain when M (index 6) and Q (index 8) are removed:
        // C1 A1 C2 A2 C4 A4 | B1 | B2 D2 B4 D4
        let n = ((f >> 7) << 5) | (b(7) << 4) | (f & 0xF);
        return Alt::Ft(n as i32 * 25 - 1000);
    }
    match gillham_ft(b(0), b(1), b(2), b(3), b(4), b(5), b(7), b(9), b(10), b(11), b(12)) {
        Some(v) => Alt::Ft(v),
        None => Alt::NoAlt,
    }
}

/// 12-bit AC field of an airborne position squitter (ME bits 9-20 = frame bits 41-52):
/// C1 A1 C2 A2 C4 A4 B1 Q B2 D2 B4 D4 (no M bit)
pub fn ac12(m: &[u32]) -> Alt {
    let f = bits(m, 41, 52) as u32;
    let b = |i: u32| (f >> (11 - i)) & 1;
    if f == 0 {
        return Alt::NoAlt;
    }
    if b(7) == 1 {
        let n = ((f >> 5) << 4) | (f & 0xF);
        return Alt::Ft(n as i32 * 25 - 1000);
    }
    match gillham_ft(b(0), b(1), b(2), b(3), b(4), b(5), b(6), b(8), b(9), b(10), b(11)) {
        Some(v) => Alt::Ft(v),
        None => Alt::NoAlt,
    }
}

/// is the implementation's `Option<u32>` an acceptable rendering of the oracle value?
/// (negative values and "no altitude" must be blank; the row type cannot hold a negative)
pub fn alt_matches(oracle: Alt, got: Option<u32>) -> bool {
    match oracle {
        Alt::Metric => true,
        Alt::NoAlt => got.is_none(),
        Alt::Ft(v) => {
            if v < 0 {
                got.is_none()
            } else {
                got == Some(v as u32)
            }
        }
    }
}

// ---------------------------------------------------------------------------------------
// Identity code (squawk), bits 20-32: C1 A1 C2 A2 C4 A4 X B1 D1 B2 D2 B4 D4
// ---------------------------------------------------------------------------------------
pub fn id13_squawk(m: &[u32]) -> u32 {
    let f = bits(m, 20, 32) as u32;
    let b = |i: u32| (f >> (12 - i)) & 1;
    let (c1, a1, c2, a2, c4, a4) = (b(0), b(1), b(2), b(3), b(4), b(5));
    let (b1, d1, b2, d2, b4, d4) = (b(7), b(8), b(9), b(10), b(11), b(12));
    let a = (a4 << 2) | (a2 << 1) | a1;
    let bb = (b4 << 2) | (b2 << 1) | b1;
    let c = (c4 << 2) | (c2 << 1) | c1;
    let d = (d4 << 2) | (d2 << 1) | d1;
    a * 1000 + bb * 100 + c * 10 + d
}

// ---------------------------------------------------------------------------------------
// Aircraft identification (BDS 0,8 / 2,0): eight 6-bit characters in frame bits 41-88
// ---------------------------------------------------------------------------------------
/// the character for a 6-bit code, or 0 when the code is omitted
pub fn ais_char(code: u32) -> u8 {
    if code >= 1 && code <= 26 {
        (64 + code) as u8
    } else if code >= 48 && code <= 57 {
        code as u8
    } else {
        0
    }
}

/// oracle callsign: (bytes, length)
pub fn callsign(m: &[u32]) -> ([u8; 8], usize) {
    let mut out = [0u8; 8];
    let mut n = 0;
    let mut i = 0;
    while i < 8 {
        let code = bits(m, 41 + 6 * i, 46 + 6 * i) as u32;
        let ch = ais_char(code);
        if ch != 0 {
            out[n] = ch;
            n += 1;
        }
        i += 1;
    }
    (out, n)
}

pub fn wake(tc: u32, ca: u32) -> Option<char> {
    if tc != 4 {
        return None;
    }
    match ca {
        1 => Some('L'),
        2 => Some('S'),
        3 => Some('M'),
        4 => Some('H'),
        5 => Some('J'),
        7 => Some('R'),
        _ => None,
    }
}

// ---------------------------------------------------------------------------------------
// Airborne velocity (TC19 subtype 1/2), DO-260B 2.2.3.2.6
// ---------------------------------------------------------------------------------------
/// signed east velocity (field-1, negative = westbound) or None for "no information"
pub fn tc19_vew(m: &[u32]) -> Option<i32> {
    let s = bit(m, 46);
    let f = bits(m, 47, 56) as i32;
    if f == 0 {
        None
    } else if s == 1 {
        Some(-(f - 1))
    } else {
        Some(f - 1)
    }
}
pub fn tc19_vns(m: &[u32]) -> Option<i32> {
    let s = bit(m, 57);
    let f = bits(m, 58, 67) as i32;
    if f == 0 {
        None
    } else if s == 1 {
        Some(-(f - 1))
    } else {
        Some(f - 1)
    }
}
/// vertical rate ft/min: +-64*(field-1), None for field 0
pub fn tc19_vrate(m: &[u32]) -> Option<i32> {
    let s = bit(m, 69);
    let f = bits(m, 70, 78) as i32;
    if f == 0 {
        None
    } else if s == 1 {
        Some(-64 * (f - 1))
    } else {
        Some(64 * (f - 1))
    }
}

// ---------------------------------------------------------------------------------------
// Comm-B registers (Doc 9871). MB bit k is frame bit 32+k.
// ---------------------------------------------------------------------------------------
/// floor and truncation of a signed rational num/den (den > 0): the property says
/// "integers truncated"; both conventions are accepted for negative values
pub fn trunc_ok(num: i64, den: i64, got: i64) -> bool {
    let t = num / den; // toward zero
    let f = num.div_euclid(den); // floor
    got == t || got == f
}

pub struct Bds40 {
    pub status_ok: bool,   // the three data status bits set
    pub reserved_ok: bool, // MB 40-47 and 52-53 zero
    pub mcp_alt: u32,      // ft, 16-ft LSB
    pub fms_alt: u32,
    pub baro: u32,         // mb, truncated: 800 + field/10
    pub mcp_field: u32,
    pub fms_field: u32,
    pub baro_field: u32,
}
pub fn bds40(m: &[u32]) -> Bds40 {
    let mcp = bits(m, 34, 45) as u32;
    let fms = bits(m, 47, 58) as u32;
    let baro = bits(m, 60, 71) as u32;
    Bds40 {
        status_ok: bit(m, 33) == 1 && bit(m, 46) == 1 && bit(m, 59) == 1,
        reserved_ok: bits(m, 72, 79) == 0 && bits(m, 84, 85) == 0,
        mcp_alt: mcp * 16,
        fms_alt: fms * 16,
        baro: 800 + baro / 10,
        mcp_field: mcp,
        fms_field: fms,
        baro_field: baro,
    }
}

pub struct Bds50 {
    pub status_ok: bool,
    pub roll_num: i64, // roll = roll_num/256 deg (two's complement 10 bit * 45/256)
    pub track_num: i64, // true track = track_num/512 deg in [0,360) scaled: value*90
    pub rate_num: i64, // track angle rate = rate_num/32 deg/s
    pub gs: u32,       // kt
    pub tas: u32,      // kt
    pub fields_nonzero: bool,
}
pub fn bds50(m: &[u32]) -> Bds50 {
    let roll_s = bit(m, 34) as i64;
    let roll_v = bits(m, 35, 43) as i64;
    let trk_s = bit(m, 45) as i64;
    let trk_v = bits(m, 46, 55) as i64;
    let gs = bits(m, 57, 66) as u32;
    let rate_s = bit(m, 68) as i64;
    let rate_v = bits(m, 69, 77) as i64;
    let tas = bits(m, 79, 88) as u32;
    Bds50 {
        status_ok: bit(m, 33) == 1
            && bit(m, 44) == 1
            && bit(m, 56) == 1
            && bit(m, 67) == 1
            && bit(m, 78) == 1,
        roll_num: (roll_v - 512 * roll_s) * 45,
        // two's complement 11-bit angle, LSB 90/512 deg, mapped onto [0,360)
        track_num: (trk_v + 1024 * trk_s) * 90,
        rate_num: rate_v - 512 * rate_s,
        gs: gs * 2,
        tas: tas * 2,
        fields_nonzero: bits(m, 34, 43) != 0
            && bits(m, 45, 55) != 0
            && gs != 0
            && bits(m, 68, 77) != 0
            && tas != 0,
    }
}

pub struct Bds60 {
    pub status_ok: bool,
    pub hdg_num: i64, // heading = hdg_num/512 deg in [0,360)
    pub ias: u32,
    pub mach_field: u32, // mach = field*0.004 (2.048/512)
    pub baro_rate: i32,  // ft/min, 32 ft/min LSB, two's complement
    pub ivv: i32,
    pub baro_field_nonzero: bool,
    pub ivv_field_nonzero: bool,
    pub fields_nonzero: bool,
}
pub fn bds60(m: &[u32]) -> Bds60 {
    let h_s = bit(m, 34) as i64;
    let h_v = bits(m, 35, 44) as i64;
    let ias = bits(m, 46, 55) as u32;
    let mach = bits(m, 57, 66) as u32;
    let br_s = bit(m, 68) as i32;
    let br_v = bits(m, 69, 77) as i32;
    let iv_s = bit(m, 79) as i32;
    let iv_v = bits(m, 80, 88) as i32;
    Bds60 {
        status_ok: bit(m, 33) == 1
            && bit(m, 45) == 1
            && bit(m, 56) == 1
            && bit(m, 67) == 1
            && bit(m, 78) == 1,
        hdg_num: (h_v + 1024 * h_s) * 90,
        ias,
        mach_field: mach,
        baro_rate: (br_v - 512 * br_s) * 32,
        ivv: (iv_v - 512 * iv_s) * 32,
        baro_field_nonzero: bits(m, 68, 77) != 0,
        ivv_field_nonzero: bits(m, 79, 88) != 0,
        fields_nonzero: bits(m, 34, 44) != 0
            && ias != 0
            && mach != 0
            && bits(m, 68, 77) != 0
            && bits(m, 79, 88) != 0,
    }
}

/// BDS 1,7 common-usage capability report: MB bit k set = register advertised.
/// MB7 = BDS 2,0, MB9 = BDS 4,0, MB16 = BDS 5,0, MB24 = BDS 6,0; MB 29-56 reserved (zero)
pub struct Bds17 {
    pub valid: bool,
    pub bds20: bool,
    pub bds40: bool,
    pub bds50: bool,
    pub bds60: bool,
}
pub fn bds17(m: &[u32]) -> Bds17 {
    Bds17 {
        valid: bit(m, 39) == 1 && bits(m, 61, 88) == 0,
        bds20: bit(m, 39) == 1,
        bds40: bit(m, 41) == 1,
        bds50: bit(m, 48) == 1,
        bds60: bit(m, 56) == 1,
    }
}
