//! Injected at `src/verif/` of a *snapshot* of /repo (never committed to /repo).
//! Compiled only under `cfg(kani)` (solver run) or `cfg(verif_replay)` (native replay of a
//! counterexample against the unmodified crate).
#![allow(dead_code, unused_imports, unused_macros, clippy::all)]

#[macro_use]
pub(crate) mod rt;
pub(crate) mod fmod;
pub(crate) mod kf;
pub(crate) mod model_map;
pub(crate) mod seed;
pub(crate) mod spec;
pub(crate) mod spec_country;
pub(crate) mod spec_nl;
