//! Bounded association-list stand-ins for `std::collections::{HashMap, BTreeMap}`,
//! implementing exactly the API the repository uses and std's documented contract
//! (one value per key; `retain` keeps exactly the accepted pairs; `BTreeMap::iter` ascending).
//! Used only under `cfg(kani)`: the real maps with a symbolic key do not finish
//! (HashMap::insert(any): > 15 min / 11 GB; BTreeMap two inserts: OOM at 36 GB).
//! Native replay always uses the real std maps.

pub const CAP: usize = 4;

/// NOTE on shape: every operation walks the slots with a CONSTANT index and a guard, and never
/// computes a slot index as a value. A symbolic index into an array of rows makes CBMC treat the
/// rows as byte arrays, after which every pointer read from a row (callsign String) explodes.
pub struct HashMap<K, V> {
    pub slots: [Option<(K, V)>; CAP],
}

impl<K: Copy + PartialEq, V> HashMap<K, V> {
    pub fn new() -> Self {
        HashMap {
            slots: [None, None, None, None],
        }
    }
    fn holds(&self, i: usize, k: &K) -> bool {
        match &self.slots[i] {
            Some((kk, _)) => *kk == *k,
            None => false,
        }
    }
    pub fn len(&self) -> usize {
        let mut n = 0;
        let mut i = 0;
        while i < CAP {
            if self.slots[i].is_some() {
                n += 1;
            }
            i += 1;
        }
        n
    }
    pub fn get(&self, k: &K) -> Option<&V> {
        if self.holds(0, k) {
            return self.slots[0].as_ref().map(|(_, v)| v);
        }
        if self.holds(1, k) {
            return self.slots[1].as_ref().map(|(_, v)| v);
        }
        if self.holds(2, k) {
            return self.slots[2].as_ref().map(|(_, v)| v);
        }
        if self.holds(3, k) {
            return self.slots[3].as_ref().map(|(_, v)| v);
        }
        None
    }
    pub fn contains_key(&self, k: &K) -> bool {
        self.holds(0, k) || self.holds(1, k) || self.holds(2, k) || self.holds(3, k)
    }
    /// put (k, v) into the first free slot (the harness never fills the model beyond CAP rows)
    fn put_free(&mut self, k: K, v: V) {
        if self.slots[0].is_none() {
            self.slots[0] = Some((k, v));
        } else if self.slots[1].is_none() {
            self.slots[1] = Some((k, v));
        } else if self.slots[2].is_none() {
            self.slots[2] = Some((k, v));
        } else if self.slots[3].is_none() {
            self.slots[3] = Some((k, v));
        } else {
            panic!("model map full");
        }
    }
    pub fn insert(&mut self, k: K, v: V) -> Option<V> {
        if self.holds(0, &k) {
            return self.slots[0].replace((k, v)).map(|(_, v)| v);
        }
        if self.holds(1, &k) {
            return self.slots[1].replace((k, v)).map(|(_, v)| v);
        }
        if self.holds(2, &k) {
            return self.slots[2].replace((k, v)).map(|(_, v)| v);
        }
        if self.holds(3, &k) {
            return self.slots[3].replace((k, v)).map(|(_, v)| v);
        }
        self.put_free(k, v);
        None
    }
    pub fn entry(&mut self, k: K) -> Entry<'_, K, V> {
        Entry { map: self, key: k }
    }
    pub fn retain<F: FnMut(&K, &mut V) -> bool>(&mut self, mut f: F) {
        let mut i = 0;
        while i < CAP {
            let keep = match &mut self.slots[i] {
                Some((k, v)) => f(k, v),
                None => true,
            };
            if !keep {
                self.slots[i] = None;
            }
            i += 1;
        }
    }
    pub fn shrink_to_fit(&mut self) {}
    pub fn is_empty(&self) -> bool {
        self.len() == 0
    }
    pub fn remove(&mut self, k: &K) -> Option<V> {
        if self.holds(0, k) {
            return self.slots[0].take().map(|(_, v)| v);
        }
        if self.holds(1, k) {
            return self.slots[1].take().map(|(_, v)| v);
        }
        if self.holds(2, k) {
            return self.slots[2].take().map(|(_, v)| v);
        }
        if self.holds(3, k) {
            return self.slots[3].take().map(|(_, v)| v);
        }
        None
    }
    pub fn get_mut(&mut self, k: &K) -> Option<&mut V> {
        if self.holds(0, k) {
            return self.slots[0].as_mut().map(|(_, v)| v);
        }
        if self.holds(1, k) {
            return self.slots[1].as_mut().map(|(_, v)| v);
        }
        if self.holds(2, k) {
            return self.slots[2].as_mut().map(|(_, v)| v);
        }
        if self.holds(3, k) {
            return self.slots[3].as_mut().map(|(_, v)| v);
        }
        None
    }
    pub fn keys(&self) -> impl Iterator<Item = &K> + '_ {
        self.iter().map(|(k, _)| k)
    }
    pub fn values(&self) -> impl Iterator<Item = &V> + '_ {
        self.iter().map(|(_, v)| v)
    }
    pub fn iter(&self) -> Iter<'_, K, V> {
        Iter { map: self, pos: 0 }
    }
}

pub struct Entry<'a, K, V> {
    map: &'a mut HashMap<K, V>,
    key: K,
}

impl<'a, K: Copy + PartialEq, V> Entry<'a, K, V> {
    pub fn and_modify<F: FnOnce(&mut V)>(self, f: F) -> Self {
        let mut f = Some(f);
        let mut i = 0;
        while i < CAP {
            if self.map.holds(i, &self.key) {
                if let Some((_, v)) = &mut self.map.slots[i] {
                    if let Some(g) = f.take() {
                        g(v);
                    }
                }
            }
            i += 1;
        }
        self
    }
    pub fn or_insert(self, default: V) -> &'a mut V {
        let Entry { map, key } = self;
        if !map.contains_key(&key) {
            map.put_free(key, default);
        }
        if map.holds(0, &key) {
            return match &mut map.slots[0] {
                Some((_, v)) => v,
                None => unreachable!(),
            };
        }
        if map.holds(1, &key) {
            return match &mut map.slots[1] {
                Some((_, v)) => v,
                None => unreachable!(),
            };
        }
        if map.holds(2, &key) {
            return match &mut map.slots[2] {
                Some((_, v)) => v,
                None => unreachable!(),
            };
        }
        match &mut map.slots[3] {
            Some((_, v)) => v,
            None => unreachable!(),
        }
    }
}

pub struct Iter<'a, K, V> {
    map: &'a HashMap<K, V>,
    pos: usize,
}

impl<'a, K, V> Iterator for Iter<'a, K, V> {
    type Item = (&'a K, &'a V);
    fn next(&mut self) -> Option<Self::Item> {
        while self.pos < CAP {
            let i = self.pos;
            self.pos += 1;
            if let Some((k, v)) = &self.map.slots[i] {
                return Some((k, v));
            }
        }
        None
    }
}

/// `BTreeMap<u32, i32>` as used by `AppCounters`: `new`, `entry(k).or_insert(v)`, `iter`
/// (ascending), `get`, `len`.
pub struct BTreeMap<K, V> {
    pub inner: HashMap<K, V>,
}

impl<K: Copy + PartialEq + PartialOrd, V> BTreeMap<K, V> {
    pub fn new() -> Self {
        BTreeMap { inner: HashMap::new() }
    }
    pub fn entry(&mut self, k: K) -> Entry<'_, K, V> {
        self.inner.entry(k)
    }
    pub fn get(&self, k: &K) -> Option<&V> {
        self.inner.get(k)
    }
    pub fn len(&self) -> usize {
        self.inner.len()
    }
    pub fn insert(&mut self, k: K, v: V) -> Option<V> {
        self.inner.insert(k, v)
    }
    /// ascending key order, as std documents
    pub fn iter(&self) -> BIter<'_, K, V> {
        BIter { map: &self.inner, last: None, done: 0 }
    }
}

pub struct BIter<'a, K, V> {
    map: &'a HashMap<K, V>,
    last: Option<K>,
    done: usize,
}

impl<'a, K: Copy + PartialEq + PartialOrd, V> Iterator for BIter<'a, K, V> {
    type Item = (&'a K, &'a V);
    fn next(&mut self) -> Option<Self::Item> {
        // smallest key strictly greater than `last`
        let mut best: Option<usize> = None;
        let mut i = 0;
        while i < CAP {
            if let Some((k, _)) = &self.map.slots[i] {
                let above = match &self.last {
                    Some(l) => *k > *l,
                    None => true,
                };
                if above {
                    best = match best {
                        None => Some(i),
                        Some(b) => match &self.map.slots[b] {
                            Some((kb, _)) if *k < *kb => Some(i),
                            _ => Some(b),
                        },
                    };
                }
            }
            i += 1;
        }
        match best {
            Some(b) => match &self.map.slots[b] {
                Some((k, v)) => {
                    self.last = Some(*k);
                    self.done += 1;
                    Some((k, v))
                }
                None => None,
            },
            None => None,
        }
    }
}
