//! Bounded association-list stand-ins for `std::collections::{HashMap, BTreeMap}`,
//! implementing exactly the API the repository uses and std's documented contract
//! (one value per key; `retain` keeps exactly the accepted pairs; `BTreeMap::iter` ascending).
//! Used only under `cfg(kani)`: the real maps with a symbolic key do not finish
//! (HashMap::insert(any): > 15 min / 11 GB; BTreeMap two inserts: OOM at 36 GB).
//! Native replay always uses the real std maps.

pub const CAP: usize = 4;

pub struct HashMap<K, V> {
    pub slots: [Option<(K, V)>; CAP],
}

impl<K: Copy + PartialEq, V> HashMap<K, V> {
    pub fn new() -> Self {
        HashMap {
            slots: [None, None, None, None],
        }
    }
    fn find(&self, k: &K) -> Option<usize> {
        let mut i = 0;
        while i < CAP {
            if let Some((kk, _)) = &self.slots[i] {
                if *kk == *k {
                    return Some(i);
                }
            }
            i += 1;
        }
        None
    }
    fn free(&self) -> Option<usize> {
        let mut i = 0;
        while i < CAP {
            if self.slots[i].is_none() {
                return Some(i);
            }
            i += 1;
        }
        None
    }
    pub fn len(&self) -> usize {
        let mut n = 0;
        let mut i = 0;
        while i < CAP {
            if self.slots[i].is_some() {
                n += 1;
            }
            i += 1;
        }
        n
    }
    pub fn get(&self, k: &K) -> Option<&V> {
        match self.find(k) {
            Some(i) => self.slots[i].as_ref().map(|(_, v)| v),
            None => None,
        }
    }
    pub fn contains_key(&self, k: &K) -> bool {
        self.find(k).is_some()
    }
    pub fn insert(&mut self, k: K, v: V) -> Option<V> {
        match self.find(&k) {
            Some(i) => self.slots[i].replace((k, v)).map(|(_, v)| v),
            None => {
                // the harness never fills the model beyond CAP-1 rows
                let i = self.free().expect("model map full");
                self.slots[i] = Some((k, v));
                None
            }
        }
    }
    pub fn entry(&mut self, k: K) -> Entry<'_, K, V> {
        let idx = self.find(&k);
        Entry { map: self, key: k, idx }
    }
    pub fn retain<F: FnMut(&K, &mut V) -> bool>(&mut self, mut f: F) {
        let mut i = 0;
        while i < CAP {
            let keep = match &mut self.slots[i] {
                Some((k, v)) => f(k, v),
                None => true,
            };
            if !keep {
                self.slots[i] = None;
            }
            i += 1;
        }
    }
    pub fn shrink_to_fit(&mut self) {}
    pub fn iter(&self) -> Iter<'_, K, V> {
        Iter { map: self, pos: 0 }
    }
}

pub struct Entry<'a, K, V> {
    map: &'a mut HashMap<K, V>,
    key: K,
    idx: Option<usize>,
}

impl<'a, K: Copy + PartialEq, V> Entry<'a, K, V> {
    pub fn and_modify<F: FnOnce(&mut V)>(self, f: F) -> Self {
        if let Some(i) = self.idx {
            if let Some((_, v)) = &mut self.map.slots[i] {
                f(v);
            }
        }
        self
    }
    pub fn or_insert(self, default: V) -> &'a mut V {
        let i = match self.idx {
            Some(i) => i,
            None => {
                let i = self.map.free().expect("model map full");
                self.map.slots[i] = Some((self.key, default));
                i
            }
        };
        match &mut self.map.slots[i] {
            Some((_, v)) => v,
            None => unreachable!(),
        }
    }
}

pub struct Iter<'a, K, V> {
    map: &'a HashMap<K, V>,
    pos: usize,
}

impl<'a, K, V> Iterator for Iter<'a, K, V> {
    type Item = (&'a K, &'a V);
    fn next(&mut self) -> Option<Self::Item> {
        while self.pos < CAP {
            let i = self.pos;
            self.pos += 1;
            if let Some((k, v)) = &self.map.slots[i] {
                return Some((k, v));
            }
        }
        None
    }
}

/// `BTreeMap<u32, i32>` as used by `AppCounters`: `new`, `entry(k).or_insert(v)`, `iter`
/// (ascending), `get`, `len`.
pub struct BTreeMap<K, V> {
    pub inner: HashMap<K, V>,
}

impl<K: Copy + PartialEq + PartialOrd, V> BTreeMap<K, V> {
    pub fn new() -> Self {
        BTreeMap { inner: HashMap::new() }
    }
    pub fn entry(&mut self, k: K) -> Entry<'_, K, V> {
        self.inner.entry(k)
    }
    pub fn get(&self, k: &K) -> Option<&V> {
        self.inner.get(k)
    }
    pub fn len(&self) -> usize {
        self.inner.len()
    }
    pub fn insert(&mut self, k: K, v: V) -> Option<V> {
        self.inner.insert(k, v)
    }
    /// ascending key order, as std documents
    pub fn iter(&self) -> BIter<'_, K, V> {
        BIter { map: &self.inner, last: None, done: 0 }
    }
}

pub struct BIter<'a, K, V> {
    map: &'a HashMap<K, V>,
    last: Option<K>,
    done: usize,
}

impl<'a, K: Copy + PartialEq + PartialOrd, V> Iterator for BIter<'a, K, V> {
    type Item = (&'a K, &'a V);
    fn next(&mut self) -> Option<Self::Item> {
        // smallest key strictly greater than `last`
        let mut best: Option<usize> = None;
        let mut i = 0;
        while i < CAP {
            if let Some((k, _)) = &self.map.slots[i] {
                let above = match &self.last {
                    Some(l) => *k > *l,
                    None => true,
                };
                if above {
                    best = match best {
                        None => Some(i),
                        Some(b) => match &self.map.slots[b] {
                            Some((kb, _)) if *k < *kb => Some(i),
                            _ => Some(b),
                        },
                    };
                }
            }
            i += 1;
        }
        match best {
            Some(b) => match &self.map.slots[b] {
                Some((k, v)) => {
                    self.last = Some(*k);
                    self.done += 1;
                    Some((k, v))
                }
                None => None,
            },
            None => None,
        }
    }
}
