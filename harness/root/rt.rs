//! Harness runtime: one source, two modes.
//!
//! * `cfg(kani)`: `any_*` are `kani::any()`, `assume` is `kani::assume`, `vassert!` is
//!   `assert!`, `vcover!` is `kani::cover!`.
//! * `cfg(verif_replay)`: `any_*` pop the concrete values Kani's concrete playback printed
//!   (file named by `$VERIF_REPLAY_FILE`, one hex-encoded little-endian value per line),
//!   `assume(false)` aborts the replay as *not applicable* (the encoding and the native run
//!   disagree), `vassert!` panics with the marker the driver looks for.
//!
//! Harnesses draw **all** their nondeterministic inputs through these wrappers and before
//! calling the code under test, so the prefix of Kani's playback vector is exactly the
//! harness input and a native run sees the same values.

#[cfg(kani)]
mod imp {
    pub fn bytes<const N: usize>() -> [u8; N] {
        kani::any()
    }
    pub fn any_u8() -> u8 {
        kani::any()
    }
    pub fn any_u16() -> u16 {
        kani::any()
    }
    pub fn any_u32() -> u32 {
        kani::any()
    }
    pub fn any_u64() -> u64 {
        kani::any()
    }
    pub fn any_i32() -> i32 {
        kani::any()
    }
    pub fn any_i64() -> i64 {
        kani::any()
    }
    pub fn any_bool() -> bool {
        kani::any()
    }
    pub fn any_f64() -> f64 {
        kani::any()
    }
    pub fn assume(c: bool) {
        kani::assume(c)
    }
}

#[cfg(all(verif_replay, not(kani)))]
mod imp {
    use std::cell::RefCell;
    thread_local! {
        static QUEUE: RefCell<Option<std::collections::VecDeque<Vec<u8>>>> = RefCell::new(None);
    }
    fn load() -> std::collections::VecDeque<Vec<u8>> {
        let path = std::env::var("VERIF_REPLAY_FILE").expect("VERIF_REPLAY_FILE not set");
        let text = std::fs::read_to_string(path).expect("cannot read replay file");
        let mut q = std::collections::VecDeque::new();
        for line in text.lines() {
            let line = line.trim();
            if line.is_empty() || line.starts_with('#') {
                continue;
            }
            let mut v = Vec::new();
            let b = line.as_bytes();
            let mut i = 0;
            while i + 1 < b.len() {
                v.push(u8::from_str_radix(&line[i..i + 2], 16).expect("bad hex"));
                i += 2;
            }
            q.push_back(v);
        }
        q
    }
    fn next(n: usize) -> Vec<u8> {
        QUEUE.with(|q| {
            let mut q = q.borrow_mut();
            if q.is_none() {
                *q = Some(load());
            }
            let mut v = q.as_mut().unwrap().pop_front().unwrap_or_default();
            v.resize(n, 0);
            v
        })
    }
    pub fn any_u8() -> u8 {
        next(1)[0]
    }
    pub fn any_u16() -> u16 {
        u16::from_le_bytes(next(2).try_into().unwrap())
    }
    pub fn any_u32() -> u32 {
        u32::from_le_bytes(next(4).try_into().unwrap())
    }
    pub fn any_u64() -> u64 {
        u64::from_le_bytes(next(8).try_into().unwrap())
    }
    pub fn any_i32() -> i32 {
        i32::from_le_bytes(next(4).try_into().unwrap())
    }
    pub fn any_i64() -> i64 {
        i64::from_le_bytes(next(8).try_into().unwrap())
    }
    pub fn any_bool() -> bool {
        next(1)[0] != 0
    }
    pub fn any_f64() -> f64 {
        f64::from_le_bytes(next(8).try_into().unwrap())
    }
    pub fn assume(c: bool) {
        if !c {
            panic!("VERIF-ASSUME-FAILED: replayed values violate a harness assumption");
        }
    }
}

pub use imp::*;

/// the fixed instant `chrono::Utc::now` is stubbed with under Kani: 2026-01-01 12:00:00 UTC.
/// The code under test depends on time only through differences to stored stamps; stamps are
/// built as `now() - age` with a symbolic age.
pub const NOW_SECS: i64 = 1_767_268_800;
#[cfg(kani)]
pub fn stub_now() -> chrono::DateTime<chrono::Utc> {
    chrono::NaiveDate::from_ymd_opt(2026, 1, 1).unwrap().and_hms_opt(12, 0, 0).unwrap().and_utc()
}
/// "now" as the harness sees it (stubbed instant under Kani, the real clock in replay)
pub fn now() -> chrono::DateTime<chrono::Utc> {
    #[cfg(kani)]
    {
        stub_now()
    }
    #[cfg(not(kani))]
    {
        chrono::Utc::now()
    }
}
/// a stamp `age` whole seconds in the past (|age| < 12 h). Under Kani it is assembled from a
/// constant date and a symbolic time-of-day, so no calendar arithmetic reaches the solver.
pub fn stamp(age: i64) -> chrono::DateTime<chrono::Utc> {
    #[cfg(kani)]
    {
        let secs = 43200 - age;
        assume(secs >= 0 && secs < 86400);
        let t = chrono::NaiveTime::from_num_seconds_from_midnight_opt(secs as u32, 0).unwrap();
        chrono::NaiveDate::from_ymd_opt(2026, 1, 1).unwrap().and_time(t).and_utc()
    }
    #[cfg(not(kani))]
    {
        chrono::Utc::now() - chrono::Duration::seconds(age)
    }
}

/// assertion of the property (marker distinguishes it from a panic inside the real code)
macro_rules! vassert {
    ($c:expr, $msg:literal) => {{
        #[cfg(kani)]
        {
            assert!($c, $msg);
        }
        #[cfg(all(verif_replay, not(kani)))]
        {
            if !($c) {
                panic!(concat!("VERIF-ASSERT-FAILED: ", $msg));
            }
        }
    }};
}

/// vacuity witness: must be SATISFIED, otherwise the harness is inconclusive
macro_rules! vcover {
    ($c:expr, $msg:literal) => {{
        #[cfg(kani)]
        {
            kani::cover!($c, $msg);
        }
        #[cfg(all(verif_replay, not(kani)))]
        {
            let _ = $c;
        }
    }};
}

/// Sub-second clock model. "now" is NOW + 0.5 s; a stamp is `age` whole seconds before NOW plus
/// `nanos` ns (0 <= nanos < 1e9, not within 1 ms of the half second so that a native replay, whose
/// clock drifts by microseconds, sees the same whole-second difference). The elapsed time is
/// age + (0.5 - nanos/1e9) s, hence `elapsed_whole` whole seconds.
pub const HALF: u32 = 500_000_000;
#[cfg(kani)]
pub fn stub_now_half() -> chrono::DateTime<chrono::Utc> {
    let t = chrono::NaiveTime::from_num_seconds_from_midnight_opt(43200, HALF).unwrap();
    chrono::NaiveDate::from_ymd_opt(2026, 1, 1).unwrap().and_time(t).and_utc()
}
pub fn now_half() -> chrono::DateTime<chrono::Utc> {
    #[cfg(kani)]
    {
        stub_now_half()
    }
    #[cfg(not(kani))]
    {
        chrono::Utc::now()
    }
}
pub fn any_nanos() -> u32 {
    let n = any_below(1_000_000_000);
    assume(n + 1_000_000 < HALF || n > HALF + 1_000_000);
    n
}
pub fn stamp_ns(age: i64, nanos: u32) -> chrono::DateTime<chrono::Utc> {
    #[cfg(kani)]
    {
        let secs = 43200 - age;
        assume(secs >= 0 && secs < 86400);
        let t = chrono::NaiveTime::from_num_seconds_from_midnight_opt(secs as u32, nanos).unwrap();
        chrono::NaiveDate::from_ymd_opt(2026, 1, 1).unwrap().and_time(t).and_utc()
    }
    #[cfg(not(kani))]
    {
        chrono::Utc::now() - chrono::Duration::seconds(age) + chrono::Duration::nanoseconds(nanos as i64 - HALF as i64)
    }
}
/// whole seconds between a `stamp_ns(age, nanos)` and `now_half()` (age >= 1, or nanos below the half second)
pub fn elapsed_whole(age: i64, nanos: u32) -> i64 {
    if nanos <= HALF { age } else { age - 1 }
}

pub(crate) use {vassert, vcover};

/// a value in `0..n`
pub fn any_below(n: u32) -> u32 {
    let v = any_u32();
    assume(v < n);
    v
}

/// 14 arbitrary nibbles = every 56-bit frame
pub fn frame14() -> [u32; 14] {
    let mut m = [0u32; 14];
    let mut i = 0;
    while i < 14 {
        m[i] = any_below(16);
        i += 1;
    }
    m
}

/// 28 arbitrary nibbles = every 112-bit frame
pub fn frame28() -> [u32; 28] {
    let mut m = [0u32; 28];
    let mut i = 0;
    while i < 28 {
        m[i] = any_below(16);
        i += 1;
    }
    m
}

/// bits `sb..=eb` (1-based, MSB first, as in Annex 10) of a nibble frame -- the harness' own
/// reader, deliberately *not* `range_value`
pub fn bits(m: &[u32], sb: usize, eb: usize) -> u64 {
    let mut v: u64 = 0;
    let mut b = sb;
    while b <= eb {
        let nib = m[(b - 1) / 4];
        let bit = (nib >> (3 - ((b - 1) % 4))) & 1;
        v = (v << 1) | bit as u64;
        b += 1;
    }
    v
}

pub fn bit(m: &[u32], b: usize) -> u32 {
    (m[(b - 1) / 4] >> (3 - ((b - 1) % 4))) & 1
}

/// force bits sb..=eb of the frame to `val` (used to pin DF / TC so that one harness covers
/// one format class; all other bits stay symbolic)
pub fn set_bits(m: &mut [u32], sb: usize, eb: usize, val: u64) {
    let n = eb - sb + 1;
    let mut k = 0;
    while k < n {
        let b = sb + k;
        let bitv = ((val >> (n - 1 - k)) & 1) as u32;
        let sh = 3 - ((b - 1) % 4);
        let idx = (b - 1) / 4;
        m[idx] = (m[idx] & !(1u32 << sh) & 0xF) | (bitv << sh);
        k += 1;
    }
}

pub fn df_of(m: &[u32]) -> u32 {
    (m[0] << 1) | (m[1] >> 3)
}

pub fn tc_of(m: &[u32]) -> u32 {
    (m[8] << 1) | (m[9] >> 3)
}
