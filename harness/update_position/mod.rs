//! Injected at `src/decoder/plane/update_position/vh/`: child of `update_position`, reaches the
//! private `degrees_to_radians` and the `pub(super)` `haversine`.
#![allow(dead_code, unused_imports, unused_variables, unused_mut, clippy::all)]
mod hav;
