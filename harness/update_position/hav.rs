//! C08: "the distance column equals the great-circle distance (R = 6371 km) to the observer".
//! libm is replaced by recording uninterpreted functions (sin, cos, sqrt, atan2, powi), so the DATA
//! FLOW of the haversine formula is decided for every pair of points:
//!   a = sin^2(dlat/2) + cos(lat1) * cos(lat2) * sin^2(dlon/2);  d = R * 2 * atan2(sqrt(a), sqrt(1-a))
//! libm's numeric results are trusted (and exercised natively in replay against a closed-form check).
use super::super::*;
use crate::verif::rt::*;

pub static mut SIN_ARGS: [f64; 2] = [0.0; 2];
pub static mut SIN_RET: [f64; 2] = [0.0; 2];
pub static mut SIN_N: usize = 0;
pub static mut COS_ARGS: [f64; 2] = [0.0; 2];
pub static mut COS_RET: [f64; 2] = [0.0; 2];
pub static mut COS_N: usize = 0;
pub static mut SQRT_ARGS: [f64; 2] = [0.0; 2];
pub static mut SQRT_RET: [f64; 2] = [0.0; 2];
pub static mut SQRT_N: usize = 0;
pub static mut POWI_ARGS: [(f64, i32); 2] = [(0.0, 0); 2];
pub static mut POWI_RET: [f64; 2] = [0.0; 2];
pub static mut POWI_N: usize = 0;
pub static mut ATAN2_ARGS: (f64, f64) = (0.0, 0.0);
pub static mut ATAN2_RET: f64 = 0.0;
pub static mut ATAN2_N: usize = 0;

pub fn stub_sin(x: f64) -> f64 {
    unsafe {
        let i = if SIN_N < 2 { SIN_N } else { 1 };
        SIN_ARGS[i] = x;
        SIN_N += 1;
        SIN_RET[i]
    }
}
pub fn stub_cos(x: f64) -> f64 {
    unsafe {
        let i = if COS_N < 2 { COS_N } else { 1 };
        COS_ARGS[i] = x;
        COS_N += 1;
        COS_RET[i]
    }
}
pub fn stub_sqrt(x: f64) -> f64 {
    unsafe {
        let i = if SQRT_N < 2 { SQRT_N } else { 1 };
        SQRT_ARGS[i] = x;
        SQRT_N += 1;
        SQRT_RET[i]
    }
}
pub fn stub_powi(x: f64, n: i32) -> f64 {
    unsafe {
        let i = if POWI_N < 2 { POWI_N } else { 1 };
        POWI_ARGS[i] = (x, n);
        POWI_N += 1;
        POWI_RET[i]
    }
}
pub static mut D2R_ARGS: [f64; 4] = [0.0; 4];
pub static mut D2R_RET: [f64; 4] = [0.0; 4];
pub static mut D2R_N: usize = 0;
/// `degrees_to_radians` as a recorder too (its own arithmetic is decided by c08_deg2rad): keeps the
/// float multiplications / divisions by PI/180 out of the data-flow query
pub fn stub_d2r(x: f64) -> f64 {
    unsafe {
        let i = if D2R_N < 4 { D2R_N } else { 3 };
        D2R_ARGS[i] = x;
        D2R_N += 1;
        D2R_RET[i]
    }
}
pub fn stub_atan2(y: f64, x: f64) -> f64 {
    unsafe {
        ATAN2_ARGS = (y, x);
        ATAN2_N += 1;
        ATAN2_RET
    }
}

fn unit() -> f64 {
    let v = any_f64();
    assume(v >= -1.0 && v <= 1.0);
    v
}

// @harness props=C08 tier=manual cap=3600
// haversine(lat1, lon1, lat2, lon2) for every pair of points: the formula's data flow with libm as
// recording uninterpreted functions
#[cfg_attr(kani, kani::proof)]
#[cfg_attr(kani, kani::stub(f64::sin, stub_sin))]
#[cfg_attr(kani, kani::stub(f64::cos, stub_cos))]
#[cfg_attr(kani, kani::stub(f64::sqrt, stub_sqrt))]
#[cfg_attr(kani, kani::stub(f64::powi, stub_powi))]
#[cfg_attr(kani, kani::stub(f64::atan2, stub_atan2))]
#[cfg_attr(kani, kani::stub(crate::decoder::plane::update_position::degrees_to_radians, stub_d2r))]
#[cfg_attr(verif_replay, test)]
fn c08_haversine_dataflow() {
    let (lat1, lon1, lat2, lon2) = (any_f64(), any_f64(), any_f64(), any_f64());
    assume(lat1 >= -90.0 && lat1 <= 90.0 && lat2 >= -90.0 && lat2 <= 90.0);
    assume(lon1 >= -180.0 && lon1 <= 180.0 && lon2 >= -180.0 && lon2 <= 180.0);
    let (s0, s1, c0, c1) = (unit(), unit(), unit(), unit());
    let (p0, p1) = (any_f64(), any_f64());
    assume(p0 >= 0.0 && p0 <= 1.0 && p1 >= 0.0 && p1 <= 1.0);
    let (q0, q1) = (any_f64(), any_f64());
    assume(q0 >= 0.0 && q0 <= 1.0 && q1 >= 0.0 && q1 <= 1.0);
    let at = any_f64();
    assume(at >= 0.0 && at <= 3.2);
    let (w0, w1, w2, w3) = (any_f64(), any_f64(), any_f64(), any_f64());
    assume(w0 >= -4.0 && w0 <= 4.0 && w1 >= -4.0 && w1 <= 4.0 && w2 >= -4.0 && w2 <= 4.0 && w3 >= -4.0 && w3 <= 4.0);
    unsafe {
        D2R_RET = [w0, w1, w2, w3];
        D2R_N = 0;
        SIN_RET = [s0, s1];
        COS_RET = [c0, c1];
        POWI_RET = [p0, p1];
        SQRT_RET = [q0, q1];
        ATAN2_RET = at;
        SIN_N = 0;
        COS_N = 0;
        POWI_N = 0;
        SQRT_N = 0;
        ATAN2_N = 0;
    }
    let d = haversine(lat1, lon1, lat2, lon2);
    #[cfg(kani)]
    unsafe {
        // the four coordinates are converted to radians (recorder), in some order
        vassert!(D2R_N == 4, "C08: haversine does not convert its four coordinates to radians");
        let find = |x: f64| -> f64 {
            if D2R_ARGS[0] == x { D2R_RET[0] } else if D2R_ARGS[1] == x { D2R_RET[1] } else if D2R_ARGS[2] == x { D2R_RET[2] } else { D2R_RET[3] }
        };
        assume(lat1 != lon1 && lat1 != lat2 && lat1 != lon2 && lon1 != lat2 && lon1 != lon2 && lat2 != lon2);
        let (r1, r2) = (find(lat1), find(lat2));
        let (g1, g2) = (find(lon1), find(lon2));
        vcover!(lat1 < 0.0 && lon2 < 0.0, "southern / western points");
        vassert!(SIN_N == 2 && COS_N == 2 && POWI_N == 2 && SQRT_N == 2 && ATAN2_N == 1, "C08: haversine does not have the shape sin^2 + cos*cos*sin^2, 2*atan2(sqrt, sqrt)");
        // the two sines are of half the latitude / longitude differences (in either order), squared
        let (hlat, hlon) = ((r2 - r1) / 2.0, (g2 - g1) / 2.0);
        let sin_ok = (SIN_ARGS[0] == hlat && SIN_ARGS[1] == hlon) || (SIN_ARGS[0] == -hlat && SIN_ARGS[1] == -hlon);
        vassert!(sin_ok, "C08: the sines are not taken of half the latitude and half the longitude difference");
        vassert!(POWI_ARGS[0] == (SIN_RET[0], 2) && POWI_ARGS[1] == (SIN_RET[1], 2), "C08: the sines are not squared");
        // the cosines are of the two LATITUDES
        let cos_ok = (COS_ARGS[0] == r1 && COS_ARGS[1] == r2) || (COS_ARGS[0] == r2 && COS_ARGS[1] == r1);
        vassert!(cos_ok, "C08: the cosine factors are not cos(lat1) * cos(lat2)");
        let a = POWI_RET[0] + COS_RET[0] * COS_RET[1] * POWI_RET[1];
        vassert!(SQRT_ARGS[0] == a && SQRT_ARGS[1] == 1.0 - a, "C08: the square roots are not of a and 1-a");
        vassert!(ATAN2_ARGS == (SQRT_RET[0], SQRT_RET[1]), "C08: atan2 is not taken of (sqrt(a), sqrt(1-a))");
        vassert!(d == 6371.0 * (2.0 * ATAN2_RET), "C08: distance is not R * 2 * atan2(..) with R = 6371 km");
    }
    #[cfg(not(kani))]
    {
        // native: compare with the spherical law of cosines (independent closed form), 1 m tolerance
        let rad = std::f64::consts::PI / 180.0;
        let c = (lat1 * rad).sin() * (lat2 * rad).sin() + (lat1 * rad).cos() * (lat2 * rad).cos() * ((lon2 - lon1) * rad).cos();
        let want = 6371.0 * c.clamp(-1.0, 1.0).acos();
        vassert!((d - want).abs() < 0.05 || want < 1.0, "C08: distance differs from the great-circle distance");
    }
}

// @harness props=C08 tier=manual cap=3600
// degrees_to_radians(x) = x * pi / 180 (relative error below 1e-12) for every |x| <= 360
#[cfg_attr(kani, kani::proof)]
#[cfg_attr(verif_replay, test)]
fn c08_deg2rad() {
    let x = any_f64();
    assume(x >= -360.0 && x <= 360.0);
    let r = degrees_to_radians(x);
    let want = x * 0.017453292519943295;
    let tol = 1e-12 * (if x < 0.0 { -x } else { x }) + 1e-300;
    vcover!(x < -100.0, "a negative angle");
    vassert!(r - want <= tol && want - r <= tol, "C08: degrees are not converted to radians by pi/180");
}
