//! C08: "the distance column equals the great-circle distance (R = 6371 km) to the observer".
//! libm is replaced by recording uninterpreted functions (sin, cos, sqrt, atan2, powi), so the DATA
//! FLOW of the haversine formula is decided for every pair of points:
//!   a = sin^2(dlat/2) + cos(lat1) * cos(lat2) * sin^2(dlon/2);  d = R * 2 * atan2(sqrt(a), sqrt(1-a))
//! libm's numeric results are trusted (and exercised natively in replay against a closed-form check).
use super::super::*;
use crate::verif::rt::*;

pub static mut SIN_ARGS: [f64; 2] = [0.0; 2];
pub static mut SIN_RET: [f64; 2] = [0.0; 2];
pub static mut SIN_N: usize = 0;
pub static mut COS_ARGS: [f64; 2] = [0.0; 2];
pub static mut COS_RET: [f64; 2] = [0.0; 2];
pub static mut COS_N: usize = 0;
pub static mut SQRT_ARGS: [f64; 2] = [0.0; 2];
pub static mut SQRT_RET: [f64; 2] = [0.0; 2];
pub static mut SQRT_N: usize = 0;
pub static mut POWI_ARGS: [(f64, i32); 2] = [(0.0, 0); 2];
pub static mut POWI_RET: [f64; 2] = [0.0; 2];
pub static mut POWI_N: usize = 0;
pub static mut ATAN2_ARGS: (f64, f64) = (0.0, 0.0);
pub static mut ATAN2_RET: f64 = 0.0;
pub static mut ATAN2_N: usize = 0;

pub fn stub_sin(x: f64) -> f64 {
    unsafe {
        let i = if SIN_N < 2 { SIN_N } else { 1 };
        SIN_ARGS[i] = x;
        SIN_N += 1;
        SIN_RET[i]
    }
}
pub fn stub_cos(x: f64) -> f64 {
    unsafe {
        let i = if COS_N < 2 { COS_N } else { 1 };
        COS_ARGS[i] = x;
        COS_N += 1;
        COS_RET[i]
    }
}
pub fn stub_sqrt(x: f64) -> f64 {
    unsafe {
        let i = if SQRT_N < 2 { SQRT_N } else { 1 };
        SQRT_ARGS[i] = x;
        SQRT_N += 1;
        SQRT_RET[i]
    }
}
pub fn stub_powi(x: f64, n: i32) -> f64 {
    unsafe {
        let i = if POWI_N < 2 { POWI_N } else { 1 };
        POWI_ARGS[i] = (x, n);
        POWI_N += 1;
        POWI_RET[i]
    }
}
pub static mut D2R_ARGS: [f64; 4] = [0.0; 4];
pub static mut D2R_RET: [f64; 4] = [0.0; 4];
pub static mut D2R_N: usize = 0;
/// `degrees_to_radians` as a recorder too (its own arithmetic is decided by c08_deg2rad): keeps the
/// float multiplications / divisions by PI/180 out of the data-flow query
pub fn stub_d2r(x: f64) -> f64 {
    unsafe {
        let i = if D2R_N < 4 { D2R_N } else { 3 };
        D2R_ARGS[i] = x;
        D2R_N += 1;
        D2R_RET[i]
    }
}
pub fn stub_atan2(y: f64, x: f64) -> f64 {
    unsafe {
        ATAN2_ARGS = (y, x);
        ATAN2_N += 1;
        ATAN2_RET
    }
}

fn unit() -> f64 {
    let v = any_f64();
    assume(v >= -1.0 && v <= 1.0);
    v
}

// @harness props=C08 tier=manual cap=3600
// haversine(lat1, lon1, lat2, lon2) for every pair of points: the formula's data flow with libm as
// recording uninterpreted functions
#[cfg_attr(kani, kani::proof)]
#[cfg_attr(kani, kani::stub(f64::sin, stub_sin))]
#[cfg_attr(kani, kani::stub(f64::cos, stub_cos))]
#[cfg_attr(kani, kani::stub(f64::sqrt, stub_sqrt))]
#[cfg_attr(kani, kani::stub(f64::powi, stub_powi))]
#[cfg_attr(kani, kani::stub(f64::atan2, stub_atan2))]
#[cfg_attr(kani, kani::stub(crate::decoder::plane::update_position::degrees_to_radians, stub_d2r))]
#[cfg_attr(verif_replay, test)]
fn c08_haversine_dataflow() {
    let (lat1, lon1, lat2, lon2) = (any_f64(), any_f64(), any_f64(), any_f64());
    assume(lat1 >= -90.0 && lat1 <= 90.0 && lat2 >= -90.0 && lat2 <= 90.0);
    assume(lon1 >= -180.0 && lon1 <= 180.0 && lon2 >= -180.0 && lon2 <= 180.0);
    let (s0, s1, c0, c1) = (unit(), unit(), unit(), unit());
    let (p0, p1) = (any_f64(), any_f64());
    assume(p0 >= 0.0 && p0 <= 1.0 && p1 >= 0.0 && p1 <= 1.0);
    let (q0, q1) = (any_f64(), any_f64());
    assume(q0 >= 0.0 && q0 <= 1.0 && q1 >= 0.0 && q1 <= 1.0);
    let at = any_f64();
    assume(at >= 0.0 && at <= 3.2);
    let (w0, w1, w2, w3) = (any_f64(), any_f64(), any_f64(), any_f64());
    assume(w0 >= -4.0 && w0 <= 4.0 && w1 >= -4.0 && w1 <= 4.0 && w2 >= -4.0 && w2 <= 4.0 && w3 >= -4.0 && w3 <= 4.0);
    unsafe {
        D2R_RET = [w0, w1, w2, w3];
        D2R_N = 0;
        SIN_RET = [s0, s1];
        COS_RET = [c0, c1];
        POWI_RET = [p0, p1];
        SQRT_RET = [q0, q1];
        ATAN2_RET = at;
        SIN_N = 0;
        COS_N = 0;
        POWI_N = 0;
        SQRT_N = 0;
        ATAN2_N = 0;
    }
    let d = haversine(lat1, lon1, lat2, lon2);
    #[cfg(kani)]
    unsafe {
        // the four coordinates are converted to radians (recorder), in some order
        vassert!(D2R_N == 4, "C08: haversine does not convert its four coordinates to radians");
        let find = |x: f64| -> f64 {
            if D2R_ARGS[0] == x { D2R_RET[0] } else if D2R_ARGS[1] == x { D2R_RET[1] } else if D2R_ARGS[2] == x { D2R_RET[2] } else { D2R_RET[3] }
        };
        assume(lat1 != lon1 && lat1 != lat2 && lat1 != lon2 && lon1 != lat2 && lon1 != lon2 && lat2 != lon2);
        let (r1, r2) = (find(lat1), find(lat2));
        let (g1, g2) = (find(lon1), find(lon2));
        vcover!(lat1 < 0.0 && lon2 < 0.0, "southern / western points");
        vassert!(SIN_N == 2 && COS_N == 2 && POWI_N == 2 && SQRT_N == 2 && ATAN2_N == 1, "C08: haversine does not have the shape sin^2 + cos*cos*sin^2, 2*atan2(sqrt, sqrt)");
        // the two sines are of half the latitude / longitude differences (in either order), squared
        let (hlat, hlon) = ((r2 - r1) / 2.0, (g2 - g1) / 2.0);
        let sin_ok = (SIN_ARGS[0] == hlat && SIN_ARGS[1] == hlon) || (SIN_ARGS[0] == -hlat && SIN_ARGS[1] == -hlon);
        vassert!(sin_ok, "C08: the sines are not taken of half the latitude and half the longitude difference");
        vassert!(POWI_ARGS[0] == (SIN_RET[0], 2) && POWI_ARGS[1] == (SIN_RET[1], 2), "C08: the sines are not squared");
        // the cosines are of the two LATITUDES
        let cos_ok = (COS_ARGS[0] == r1 && COS_ARGS[1] == r2) || (COS_ARGS[0] == r2 && COS_ARGS[1] == r1);
        vassert!(cos_ok, "C08: the cosine factors are not cos(lat1) * cos(lat2)");
        let a = POWI_RET[0] + COS_RET[0] * COS_RET[1] * POWI_RET[1];
        vassert!(SQRT_ARGS[0] == a && SQRT_ARGS[1] == 1.0 - a, "C08: the square roots are not of a and 1-a");
        vassert!(ATAN2_ARGS == (SQRT_RET[0], SQRT_RET[1]), "C08: atan2 is not taken of (sqrt(a), sqrt(1-a))");
        vassert!(d == 6371.0 * (2.0 * ATAN2_RET), "C08: distance is not R * 2 * atan2(..) with R = 6371 km");
    }
    #[cfg(not(kani))]
    {
        // native: compare with the spherical law of cosines (independent closed form), 1 m tolerance
        let rad = std::f64::consts::PI / 180.0;
        let c = (lat1 * rad).sin() * (lat2 * rad).sin() + (lat1 * rad).cos() * (lat2 * rad).cos() * ((lon2 - lon1) * rad).cos();
        let want = 6371.0 * c.clamp(-1.0, 1.0).acos();
        vassert!((d - want).abs() < 0.05 || want < 1.0, "C08: distance differs from the great-circle distance");
    }
}

// @harness props=C08 tier=manual cap=3600
// degrees_to_radians(x) = x * pi / 180 (relative error below 1e-12) for every |x| <= 360
#[cfg_attr(kani, kani::proof)]
#[cfg_attr(verif_replay, test)]
fn c08_deg2rad() {
    let x = any_f64();
    assume(x >= -360.0 && x <= 360.0);
    let r = degrees_to_radians(x);
    let want = x * 0.017453292519943295;
    let tol = 1e-12 * (if x < 0.0 { -x } else { x }) + 1e-300;
    vcover!(x < -100.0, "a negative angle");
    vassert!(r - want <= tol && want - r <= tol, "C08: degrees are not converted to radians by pi/180");
}

// ---------------------------------------------------------------------------------------------
// Probe-valued data flow (cheap): the uninterpreted libm functions and `degrees_to_radians` return
// CONCRETE, pairwise distinct, generic probe constants, so all float arithmetic inside `haversine` is
// constant-folded; the four coordinates stay symbolic and are identified by the recorded ARGUMENTS
// of `degrees_to_radians` (any call order). Decides for every (lat1, lon1, lat2, lon2) of the domain
// WHICH quantity reaches which libm call. Weaker than the fully uninterpreted query above (a formula
// agreeing with haversine on the probe constants would pass) but finishes, and runs on every change.
// two probe sets, chosen by VERIF_SEED (a formula agreeing with haversine on one set by accident does not on the other)
const ODD: bool = crate::verif::seed::SEED % 2 == 1;
const W: [f64; 4] = if ODD { [-0.4375, 1.296875, 2.78125, -0.96875] } else { [0.3125, -1.171875, 0.84375, 2.40625] };
const PS: [f64; 2] = if ODD { [-0.34375, 0.90625] } else { [0.40625, -0.71875] };
const PC: [f64; 2] = if ODD { [0.46875, -0.15625] } else { [0.59375, 0.28125] };
const PP: [f64; 2] = if ODD { [0.109375, 0.640625] } else { [0.171875, 0.53125] };
const PQ: [f64; 2] = if ODD { [0.71875, 0.59375] } else { [0.65625, 0.78125] };
const PA: f64 = if ODD { 0.921875 } else { 0.703125 };

fn probe(separated: bool) {
    let (lat1, lon1, lat2, lon2) = (any_f64(), any_f64(), any_f64(), any_f64());
    assume(lat1 >= -90.0 && lat1 <= 90.0 && lat2 >= -90.0 && lat2 <= 90.0);
    assume(lon1 >= -180.0 && lon1 <= 180.0 && lon2 >= -180.0 && lon2 <= 180.0);
    // the coordinates are identified by value: pairwise distinct
    assume(lat1 != lon1 && lat1 != lat2 && lat1 != lon2 && lon1 != lat2 && lon1 != lon2 && lat2 != lon2);
    if separated {
        // region where a wrong term changes the distance by far more than the native tolerance, so that a
        // counterexample of the data-flow query also reproduces against the real libm
        let (a1, a2) = (if lat1 < 0.0 { -lat1 } else { lat1 }, if lat2 < 0.0 { -lat2 } else { lat2 });
        let dl = if lon1 < lon2 { lon2 - lon1 } else { lon1 - lon2 };
        assume(a1 <= 70.0 && a2 <= 70.0 && (a1 - a2 >= 10.0 || a2 - a1 >= 10.0) && dl >= 10.0 && dl <= 170.0);
    }
    unsafe {
        D2R_RET = W;
        D2R_N = 0;
        SIN_RET = PS;
        COS_RET = PC;
        POWI_RET = PP;
        SQRT_RET = PQ;
        ATAN2_RET = PA;
        SIN_N = 0;
        COS_N = 0;
        POWI_N = 0;
        SQRT_N = 0;
        ATAN2_N = 0;
    }
    let d = haversine(lat1, lon1, lat2, lon2);
    #[cfg(kani)]
    unsafe {
        vcover!(lat1 < 0.0 && lon2 < 0.0, "southern / western points");
        vassert!(D2R_N == 4, "C08: haversine does not convert its four coordinates to radians");
        vassert!(SIN_N == 2 && COS_N == 2 && POWI_N == 2 && SQRT_N == 2 && ATAN2_N == 1, "C08: haversine does not have the shape sin^2 + cos*cos*sin^2, 2*atan2(sqrt, sqrt)");
        let mut found_lat = false;
        let mut found_lon = false;
        let mut i = 0;
        while i < 4 {
            let mut j = 0;
            while j < 4 {
                if i != j && D2R_ARGS[i] == lat1 && D2R_ARGS[j] == lat2 {
                    found_lat = true;
                    let cos_ok = (COS_ARGS[0] == W[i] && COS_ARGS[1] == W[j]) || (COS_ARGS[0] == W[j] && COS_ARGS[1] == W[i]);
                    vassert!(cos_ok, "C08: the cosine factors are not cos(lat1) * cos(lat2)");
                    let hlat = (W[j] - W[i]) / 2.0;
                    let mut k = 0;
                    while k < 4 {
                        let mut l = 0;
                        while l < 4 {
                            if k != l && D2R_ARGS[k] == lon1 && D2R_ARGS[l] == lon2 {
                                found_lon = true;
                                let hlon = (W[l] - W[k]) / 2.0;
                                let sin_ok = (SIN_ARGS[0] == hlat && SIN_ARGS[1] == hlon) || (SIN_ARGS[0] == -hlat && SIN_ARGS[1] == -hlon)
                                    || (SIN_ARGS[0] == hlat && SIN_ARGS[1] == -hlon) || (SIN_ARGS[0] == -hlat && SIN_ARGS[1] == hlon);
                                vassert!(sin_ok, "C08: the sines are not taken of half the latitude and half the longitude difference");
                            }
                            l += 1;
                        }
                        k += 1;
                    }
                }
                j += 1;
            }
            i += 1;
        }
        vassert!(found_lat && found_lon, "C08: a coordinate does not reach degrees_to_radians");
        vassert!(POWI_ARGS[0] == (SIN_RET[0], 2) && POWI_ARGS[1] == (SIN_RET[1], 2), "C08: the sines are not squared");
        let a = POWI_RET[0] + COS_RET[0] * COS_RET[1] * POWI_RET[1];
        vassert!(SQRT_ARGS[0] == a && SQRT_ARGS[1] == 1.0 - a, "C08: the square roots are not of a and 1-a");
        vassert!(ATAN2_ARGS == (SQRT_RET[0], SQRT_RET[1]), "C08: atan2 is not taken of (sqrt(a), sqrt(1-a))");
        let want = 6371.0 * (2.0 * ATAN2_RET);
        vassert!(d - want <= 1e-9 && want - d <= 1e-9, "C08: distance is not R * 2 * atan2(..) with R = 6371 km");
    }
    #[cfg(not(kani))]
    {
        // native: compare with the spherical law of cosines (independent closed form), 50 m tolerance
        let rad = std::f64::consts::PI / 180.0;
        let c = (lat1 * rad).sin() * (lat2 * rad).sin() + (lat1 * rad).cos() * (lat2 * rad).cos() * ((lon2 - lon1) * rad).cos();
        let want = 6371.0 * c.clamp(-1.0, 1.0).acos();
        vassert!((d - want).abs() < 0.05 || want < 1.0, "C08: distance differs from the great-circle distance");
    }
}

// @harness props=C08 tier=quick cap=600
// haversine data flow with probe-valued libm, every pair of points (four pairwise distinct coordinates):
// cos of the two latitudes, sin of half the lat / lon difference, squared, sqrt(a) / sqrt(1-a), R = 6371
#[cfg_attr(kani, kani::proof)]
#[cfg_attr(kani, kani::unwind(5))]
#[cfg_attr(kani, kani::stub(f64::sin, stub_sin))]
#[cfg_attr(kani, kani::stub(f64::cos, stub_cos))]
#[cfg_attr(kani, kani::stub(f64::sqrt, stub_sqrt))]
#[cfg_attr(kani, kani::stub(f64::powi, stub_powi))]
#[cfg_attr(kani, kani::stub(f64::atan2, stub_atan2))]
#[cfg_attr(kani, kani::stub(crate::decoder::plane::update_position::degrees_to_radians, stub_d2r))]
#[cfg_attr(verif_replay, test)]
fn c08_haversine_probe_all() {
    probe(false);
}

// @harness props=C08 tier=quick cap=600
// the same on well-separated points (|lat| <= 70 differing by >= 10 deg, 10..170 deg apart in longitude),
// where a wrong term moves the distance by kilometres: counterexamples reproduce against the real libm
#[cfg_attr(kani, kani::proof)]
#[cfg_attr(kani, kani::unwind(5))]
#[cfg_attr(kani, kani::stub(f64::sin, stub_sin))]
#[cfg_attr(kani, kani::stub(f64::cos, stub_cos))]
#[cfg_attr(kani, kani::stub(f64::sqrt, stub_sqrt))]
#[cfg_attr(kani, kani::stub(f64::powi, stub_powi))]
#[cfg_attr(kani, kani::stub(f64::atan2, stub_atan2))]
#[cfg_attr(kani, kani::stub(crate::decoder::plane::update_position::degrees_to_radians, stub_d2r))]
#[cfg_attr(verif_replay, test)]
fn c08_haversine_probe_separated() {
    probe(true);
}
