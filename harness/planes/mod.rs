//! Injected at `src/decoder/planes/vh/`: child of `planes`, reaches the private
//! `sort_printed_planes`. Under Kani `HashMap` in planes.rs is the bounded model map.
#![allow(dead_code, unused_imports, unused_variables, unused_mut, clippy::all)]
mod c12;
mod table;
mod c15;
