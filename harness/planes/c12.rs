//! C12 (sweep half): rows live exactly as long as the aircraft is being heard.
use super::super::*;
use crate::verif::rt::*;

fn row(icao: u32, age: i64) -> Plane {
    let mut p = Plane::new();
    p.icao = icao;
    p.timestamp = stamp(age);
    p
}

fn row_ns(icao: u32, age: i64, nanos: u32) -> Plane {
    let mut p = Plane::new();
    p.icao = icao;
    p.timestamp = stamp_ns(age, nanos);
    p
}

// @harness props=C12,C01 tier=quick cap=900
// one `cleanup` call on a table of three rows with arbitrary last-contact times (whole seconds AND
// sub-second parts on both sides of the sweep instant's), arbitrary delete_after in 1..=40000 s and
// arbitrary sweep counter 0..=11: a sweep happens iff the counter exceeds 10, removes exactly the rows
// silent for >= delete_after WHOLE seconds, and the counter stays in 1..=11 (=> at most 11 frames
// between sweeps)
#[cfg_attr(kani, kani::proof)]
#[cfg_attr(kani, kani::unwind(8))]
#[cfg_attr(kani, kani::stub(chrono::Utc::now, crate::verif::rt::stub_now_half))]
#[cfg_attr(verif_replay, test)]
fn c12_cleanup_step() {
    let (k0, k1, k2) = (any_below(1 << 24), any_below(1 << 24), any_below(1 << 24));
    assume(k0 != 0 && k1 != 0 && k2 != 0 && k0 != k1 && k0 != k2 && k1 != k2);
    let (a0, a1, a2) = (any_i64(), any_i64(), any_i64());
    assume(a0 >= 1 && a0 <= 41000 && a1 >= 1 && a1 <= 41000 && a2 >= 1 && a2 <= 41000);
    let (n0, n1, n2) = (any_nanos(), any_nanos(), any_nanos());
    let delete_after = any_i64();
    assume(delete_after >= 1 && delete_after <= 40000);
    let count = any_below(12);
    let mut planes = Planes::new();
    {
        let mut t = planes.aircrafts.write().unwrap();
        t.insert(k0, row_ns(k0, a0, n0));
        t.insert(k1, row_ns(k1, a1, n1));
        t.insert(k2, row_ns(k2, a2, n2));
    }
    let mut st = AppCounters::from_update_interval(3);
    st.cleanup_count = count;
    let now = now_half();
    planes.cleanup(&mut st, now, delete_after);
    let t = planes.aircrafts.read().unwrap();
    let (h0, h1, h2) = (t.get(&k0).is_some(), t.get(&k1).is_some(), t.get(&k2).is_some());
    let (e0, e1, e2) = (elapsed_whole(a0, n0), elapsed_whole(a1, n1), elapsed_whole(a2, n2));
    vcover!(count > 10 && e0 == delete_after, "sweep with a row exactly at the limit");
    vcover!(count > 10 && e1 == delete_after - 1 && n1 > HALF && e2 > delete_after, "sweep with rows on both sides, later sub-second part");
    vcover!(count <= 10 && e0 > delete_after, "no sweep although a row is stale");
    vassert!(st.cleanup_count <= 11 && st.cleanup_count >= 1, "C12: sweep counter leaves 1..=11");
    if count > 10 {
        vassert!(st.cleanup_count == 1, "C12: counter not restarted by a sweep");
        vassert!(h0 == (e0 < delete_after) && h1 == (e1 < delete_after) && h2 == (e2 < delete_after),
            "C12: a sweep must keep exactly the rows heard less than delete_after whole seconds ago");
    } else {
        vassert!(st.cleanup_count == count + 1, "C12: counter must advance by one per accepted frame");
        vassert!(h0 && h1 && h2, "C12: rows removed outside a sweep");
    }
    vassert!(t.len() == h0 as usize + h1 as usize + h2 as usize, "C12: table holds rows that were never inserted");
}

// @harness props=C12 tier=quick cap=900
// the same sweep step on a table of TWO rows (both may be stale at once): a sweep removes EVERY row silent
// for >= delete_after whole seconds, not just one. (Small enough for its counterexample trace to be parsed.)
#[cfg_attr(kani, kani::proof)]
#[cfg_attr(kani, kani::unwind(8))]
#[cfg_attr(kani, kani::stub(chrono::Utc::now, crate::verif::rt::stub_now_half))]
#[cfg_attr(verif_replay, test)]
fn c12_cleanup_two_rows() {
    let (k0, k1) = (any_below(1 << 24), any_below(1 << 24));
    assume(k0 != 0 && k1 != 0 && k0 != k1);
    let (a0, a1) = (any_i64(), any_i64());
    assume(a0 >= 1 && a0 <= 41000 && a1 >= 1 && a1 <= 41000);
    let (n0, n1) = (any_nanos(), any_nanos());
    let delete_after = any_i64();
    assume(delete_after >= 1 && delete_after <= 40000);
    let mut planes = Planes::new();
    {
        let mut t = planes.aircrafts.write().unwrap();
        t.insert(k0, row_ns(k0, a0, n0));
        t.insert(k1, row_ns(k1, a1, n1));
    }
    let mut st = AppCounters::from_update_interval(3);
    st.cleanup_count = 11;
    planes.cleanup(&mut st, now_half(), delete_after);
    let t = planes.aircrafts.read().unwrap();
    let (e0, e1) = (elapsed_whole(a0, n0), elapsed_whole(a1, n1));
    vcover!(e0 >= delete_after && e1 >= delete_after, "both rows stale at the same sweep");
    vcover!(e0 < delete_after && e1 >= delete_after, "one stale, one fresh");
    vassert!(t.get(&k0).is_some() == (e0 < delete_after), "C12: a sweep must keep exactly the rows heard less than delete_after whole seconds ago (row 0)");
    vassert!(t.get(&k1).is_some() == (e1 < delete_after), "C12: a sweep must keep exactly the rows heard less than delete_after whole seconds ago (row 1)");
}

// @harness props=C19,C12 tier=quick cap=1200
// the sweep under two option sets that differ in the refresh interval (-u) - the only presentation
// option that reaches the counters object handed to `cleanup` - removes the same rows: two tables holding
// the same row (arbitrary age), arbitrary sweep counter, arbitrary delete_after, -u arbitrary on each
// side (incl. -1 and values larger than delete_after). (One row per table keeps the counterexample
// trace small enough for kani-driver to parse.)
#[cfg_attr(kani, kani::proof)]
#[cfg_attr(kani, kani::unwind(8))]
#[cfg_attr(kani, kani::stub(chrono::Utc::now, crate::verif::rt::stub_now))]
#[cfg_attr(verif_replay, test)]
fn c19_cleanup_refresh_interval_neutral() {
    let k0 = any_below(1 << 24);
    assume(k0 != 0);
    let a0 = any_i64();
    assume(a0 >= 0 && a0 <= 41000);
    let delete_after = any_i64();
    assume(delete_after >= 1 && delete_after <= 40000);
    let count = any_below(12);
    let (u1, u2) = (any_i64(), any_i64());
    assume(u1 >= -1 && u1 <= 40000 && u2 >= -1 && u2 <= 40000);
    let (mut p1, mut p2) = (Planes::new(), Planes::new());
    p1.aircrafts.write().unwrap().insert(k0, row(k0, a0));
    p2.aircrafts.write().unwrap().insert(k0, row(k0, a0));
    let (mut s1, mut s2) = (AppCounters::from_update_interval(u1), AppCounters::from_update_interval(u2));
    s1.cleanup_count = count;
    s2.cleanup_count = count;
    let now = now();
    p1.cleanup(&mut s1, now, delete_after);
    p2.cleanup(&mut s2, now, delete_after);
    let (t1, t2) = (p1.aircrafts.read().unwrap(), p2.aircrafts.read().unwrap());
    vcover!(count > 10 && u1 != u2 && a0 >= delete_after, "a sweep that removes the row, different -u");
    vcover!(count > 10 && u1 > delete_after && u2 == 3 && a0 < delete_after, "refresh interval larger than delete_after on one side, row kept");
    vassert!(t1.get(&k0).is_some() == t2.get(&k0).is_some(), "C19: which aircraft stay in the table depends on the refresh interval -u");
    vassert!(s1.cleanup_count == s2.cleanup_count, "C19: the sweep cadence depends on the refresh interval -u");
}
