//! C12 (sweep half): rows live exactly as long as the aircraft is being heard.
use super::super::*;
use crate::verif::rt::*;

fn row(icao: u32, age: i64) -> Plane {
    let mut p = Plane::new();
    p.icao = icao;
    p.timestamp = stamp(age);
    p
}

// @harness props=C12,C01 tier=quick cap=900
// one `cleanup` call on a table of three rows with arbitrary last-contact ages (both sides of and
// exactly at the limit), arbitrary delete_after in 1..=40000 s and arbitrary sweep counter 0..=11:
// a sweep happens iff the counter exceeds 10, removes exactly the rows silent for >= delete_after
// whole seconds, and the counter stays in 0..=11 (=> at most 11 frames between sweeps)
#[cfg_attr(kani, kani::proof)]
#[cfg_attr(kani, kani::unwind(8))]
#[cfg_attr(kani, kani::stub(chrono::Utc::now, crate::verif::rt::stub_now))]
#[cfg_attr(verif_replay, test)]
fn c12_cleanup_step() {
    let (k0, k1, k2) = (any_below(1 << 24), any_below(1 << 24), any_below(1 << 24));
    assume(k0 != 0 && k1 != 0 && k2 != 0 && k0 != k1 && k0 != k2 && k1 != k2);
    let (a0, a1, a2) = (any_i64(), any_i64(), any_i64());
    assume(a0 >= 0 && a0 <= 41000 && a1 >= 0 && a1 <= 41000 && a2 >= 0 && a2 <= 41000);
    let delete_after = any_i64();
    assume(delete_after >= 1 && delete_after <= 40000);
    let count = any_below(12);
    let mut planes = Planes::new();
    {
        let mut t = planes.aircrafts.write().unwrap();
        t.insert(k0, row(k0, a0));
        t.insert(k1, row(k1, a1));
        t.insert(k2, row(k2, a2));
    }
    let mut st = AppCounters::from_update_interval(3);
    st.cleanup_count = count;
    let now = now();
    planes.cleanup(&mut st, now, delete_after);
    let t = planes.aircrafts.read().unwrap();
    let (h0, h1, h2) = (t.get(&k0).is_some(), t.get(&k1).is_some(), t.get(&k2).is_some());
    vcover!(count > 10 && a0 == delete_after, "sweep with a row exactly at the limit");
    vcover!(count > 10 && a1 == delete_after - 1 && a2 > delete_after, "sweep with rows on both sides");
    vcover!(count <= 10 && a0 > delete_after, "no sweep although a row is stale");
    vassert!(st.cleanup_count <= 11 && st.cleanup_count >= 1, "C12: sweep counter leaves 1..=11");
    if count > 10 {
        vassert!(st.cleanup_count == 1, "C12: counter not restarted by a sweep");
        vassert!(h0 == (a0 < delete_after) && h1 == (a1 < delete_after) && h2 == (a2 < delete_after),
            "C12: a sweep must keep exactly the rows heard less than delete_after whole seconds ago");
    } else {
        vassert!(st.cleanup_count == count + 1, "C12: counter must advance by one per accepted frame");
        vassert!(h0 && h1 && h2, "C12: rows removed outside a sweep");
    }
    vassert!(t.len() == h0 as usize + h1 as usize + h2 as usize, "C12: table holds rows that were never inserted");
}
