//! C15 Every refresh lists each aircraft once, ordered by the requested key:
//! the private `sort_printed_planes` on three rows handed over in ascending address order (the
//! state `Planes::print` establishes before calling it).
use super::super::*;
use crate::verif::rt::*;

fn args_with_order(o: &str) -> Args {
    Args {
        count_df: false,
        display_info: Vec::new(),
        downlink_log: None,
        error_log: None,
        filter: None,
        format: None,
        log_messages: None,
        order_by: if o.is_empty() { Vec::new() } else { vec![String::from(o)] },
        observer_coord: None,
        relaxed: false,
        source: String::new(),
        tcp: String::new(),
        update: 3,
        delete_after: 60,
        use_update_method: false,
    }
}

fn opt_u32(max: u32) -> Option<u32> {
    let some = any_bool();
    let v = any_below(max);
    if some { Some(v) } else { None }
}
fn f_in(lo: f64, hi: f64) -> f64 {
    let v = any_f64();
    assume(v >= lo && v <= hi);
    v
}

/// a row with arbitrary sort keys (blanks included)
fn key_row(icao: u32) -> Plane {
    let mut p = Plane::new();
    p.icao = icao;
    p.squawk = opt_u32(7778);
    p.altitude = opt_u32(100000);
    let hv = any_bool();
    let v = any_i32();
    assume(v >= -32768 && v <= 32768);
    p.vrate = if hv { Some(v) } else { None };
    p.lat = f_in(-90.0, 90.0);
    p.lon = f_in(-180.0, 180.0);
    let hd = any_bool();
    let d = f_in(0.0, 21000.0);
    p.distance_from_observer = if hd { Some(d) } else { None };
    p.category = (any_below(32), any_below(8));
    p
}

#[derive(Clone, Copy)]
enum Key {
    None,
    Squawk,
    AltUp,
    AltDown,
    Vrate,
    Lat,
    Lon,
    Dist,
    Cat,
}

/// the key of the rows is monotone down the table (over the rows that have it)
fn monotone3(k: Key, r: [&Plane; 3]) -> bool {
    // compare adjacent rows that both have the key; with three rows also (0,2) when 1 is blank
    let le = |a: &Plane, b: &Plane, dir: i32| -> bool {
        // dir: +1 ascending, -1 descending
        match k {
            Key::Squawk => match (a.squawk, b.squawk) {
                (Some(x), Some(y)) => x <= y,
                _ => true,
            },
            Key::AltUp => match (a.altitude, b.altitude) {
                (Some(x), Some(y)) => x <= y,
                _ => true,
            },
            Key::AltDown => match (a.altitude, b.altitude) {
                (Some(x), Some(y)) => x >= y,
                _ => true,
            },
            Key::Vrate => match (a.vrate, b.vrate) {
                (Some(x), Some(y)) => if dir > 0 { x <= y } else { x >= y },
                _ => true,
            },
            Key::Lat => if dir > 0 { a.lat <= b.lat } else { a.lat >= b.lat },
            Key::Lon => if dir > 0 { a.lon <= b.lon } else { a.lon >= b.lon },
            Key::Dist => match (a.distance_from_observer, b.distance_from_observer) {
                (Some(x), Some(y)) => if dir > 0 { x <= y } else { x >= y },
                _ => true,
            },
            Key::Cat => if dir > 0 { a.category <= b.category } else { a.category >= b.category },
            Key::None => true,
        }
    };
    let chain = |dir: i32| le(r[0], r[1], dir) && le(r[1], r[2], dir) && le(r[0], r[2], dir);
    // for keys whose direction the property leaves to the letter pair, either direction is accepted
    chain(1) || match k {
        Key::Squawk | Key::AltUp => false,
        _ => chain(-1),
    }
}

fn run_sort(order: &str, key: Key) {
    let (k0, k1, k2) = (any_below(1 << 24), any_below(1 << 24), any_below(1 << 24));
    assume(0 < k0 && k0 < k1 && k1 < k2); // ascending address order, as Planes::print hands it over
    let (p0, p1, p2) = (key_row(k0), key_row(k1), key_row(k2));
    let args = args_with_order(order);
    let mut v: Vec<(&u32, &Plane)> = vec![(&k0, &p0), (&k1, &p1), (&k2, &p2)];
    sort_printed_planes(&args, &mut v);
    vassert!(v.len() == 3, "C15: a refresh does not list every aircraft exactly once");
    let (a, b, c) = (*v[0].0, *v[1].0, *v[2].0);
    let once = |k: u32| (a == k) as u32 + (b == k) as u32 + (c == k) as u32 == 1;
    vassert!(once(k0) && once(k1) && once(k2), "C15: a refresh does not list every aircraft exactly once");
    vassert!(v[0].1.icao == a && v[1].1.icao == b && v[2].1.icao == c, "C15: address and row got separated");
    match key {
        Key::None => {
            vassert!(a < b && b < c, "C15: without a recognised key the rows must be in ascending address order");
        }
        _ => {
            vassert!(monotone3(key, [v[0].1, v[1].1, v[2].1]), "C15: the sort key is not monotone down the table");
        }
    }
    let is_none = matches!(key, Key::None);
    vcover!(if is_none { a == k0 } else { a == k2 }, "the order can differ from the address order (or is kept when no key is given)");
}

macro_rules! sort_h {
    ($name:ident, $order:expr, $key:expr) => {
        #[cfg_attr(kani, kani::proof)]
        #[cfg_attr(kani, kani::unwind(8))]
        #[cfg_attr(kani, kani::stub(chrono::Utc::now, crate::verif::rt::stub_now))]
        #[cfg_attr(verif_replay, test)]
        fn $name() {
            run_sort($order, $key);
        }
    };
}

// @harness name=c15_sort_s props=C15,C01 tier=quick cap=600
// -o s: squawk ascending; 3 rows, all keys symbolic incl. blanks and ties
sort_h!(c15_sort_s, "s", Key::Squawk);
// @harness name=c15_sort_a props=C15 tier=quick cap=600
// -o a: altitude ascending
sort_h!(c15_sort_a, "a", Key::AltUp);
// @harness name=c15_sort_upper_a props=C15 tier=quick cap=600
// -o A: altitude descending
sort_h!(c15_sort_upper_a, "A", Key::AltDown);
// @harness name=c15_sort_v props=C15 tier=thorough cap=600
// -o v: vertical rate
sort_h!(c15_sort_v, "v", Key::Vrate);
// @harness name=c15_sort_upper_v props=C15 tier=thorough cap=600
// -o V: vertical rate, other direction
sort_h!(c15_sort_upper_v, "V", Key::Vrate);
// @harness name=c15_sort_n props=C15,C01 tier=quick cap=600
// -o N: latitude
sort_h!(c15_sort_n, "N", Key::Lat);
// @harness name=c15_sort_upper_s props=C15 tier=thorough cap=600
// -o S: latitude, other direction
sort_h!(c15_sort_upper_s, "S", Key::Lat);
// @harness name=c15_sort_w props=C15 tier=quick cap=600
// -o W: longitude
sort_h!(c15_sort_w, "W", Key::Lon);
// @harness name=c15_sort_e props=C15 tier=thorough cap=600
// -o E: longitude, other direction
sort_h!(c15_sort_e, "E", Key::Lon);
// @harness name=c15_sort_d props=C15 tier=quick cap=600
// -o d: distance
sort_h!(c15_sort_d, "d", Key::Dist);
// @harness name=c15_sort_upper_d props=C15 tier=thorough cap=600
// -o D: distance, other direction
sort_h!(c15_sort_upper_d, "D", Key::Dist);
// @harness name=c15_sort_c props=C15 tier=quick cap=600
// -o c: category
sort_h!(c15_sort_c, "c", Key::Cat);
// @harness name=c15_sort_none props=C15 tier=quick cap=600
// no recognised key (-o x): ascending address order is kept
sort_h!(c15_sort_none, "x", Key::None);
// two-letter orders: only the LAST letter may decide (a symbolic first letter exhausts memory, so
// the combinations are concrete instances)
// @harness name=c15_sort_upper_a_then_s props=C15 tier=quick cap=900
// -o As: squawk ascending although the first key sorts descending
sort_h!(c15_sort_upper_a_then_s, "As", Key::Squawk);
// @harness name=c15_sort_upper_d_then_a props=C15 tier=quick cap=900
// -o Da: altitude ascending although the first key sorts descending
sort_h!(c15_sort_upper_d_then_a, "Da", Key::AltUp);
// @harness name=c15_sort_upper_v_then_s props=C15 tier=thorough cap=900
// -o Vs
sort_h!(c15_sort_upper_v_then_s, "Vs", Key::Squawk);
// @harness name=c15_sort_upper_a_then_upper_a props=C15 tier=thorough cap=900
// -o AA: still descending
sort_h!(c15_sort_upper_a_then_upper_a, "AA", Key::AltDown);
// @harness name=c15_sort_s_then_x props=C15 tier=thorough cap=900
// -o sx: an unrecognised last letter leaves the squawk order
sort_h!(c15_sort_s_then_x, "sx", Key::Squawk);
// @harness name=c15_sort_upper_d_then_n props=C15 tier=thorough cap=900
// -o DN
sort_h!(c15_sort_upper_d_then_n, "DN", Key::Lat);
// @harness name=c15_sort_two_letters props=C15 tier=quick cap=900
// -o sA (the CLI default): the LAST letter decides: altitude descending
sort_h!(c15_sort_two_letters, "sA", Key::AltDown);
