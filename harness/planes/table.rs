//! Table step (`Planes::update_aircraft`) with the bounded model map: C03 isolation / one row per
//! address, C12 "a later frame starts a fresh row", C19 presentation options are decode-neutral.
use super::super::*;
use crate::decoder::vh::rows::*;
use crate::verif::rt::*;
use crate::verif::spec::*;

pub fn mk_args(use_update: bool, relaxed: bool, variant: u32) -> Args {
    // `variant` varies every presentation / logging option (they must not matter)
    Args {
        count_df: variant & 1 == 1,
        display_info: if variant & 2 == 2 { vec![String::from("Q")] } else { vec![String::from("aAews")] },
        downlink_log: None,
        error_log: None,
        filter: None,
        format: None,
        log_messages: if variant & 4 == 4 { Some(vec![17, 4]) } else { None },
        order_by: if variant & 8 == 8 { vec![String::from("N")] } else { vec![String::from("sA")] },
        observer_coord: if variant & 16 == 16 { Some(String::from("10, 20")) } else { None },
        relaxed,
        source: String::new(),
        tcp: String::new(),
        update: if variant & 32 == 32 { -1 } else { 3 },
        delete_after: 60,
        use_update_method: use_update,
    }
}

/// the country lookup (a 189-arm match on the symbolic address, decided by C17) is irrelevant to the
/// table step and cut here
pub fn stub_country(_icao: u32) -> (&'static str, &'static str) {
    ("cut", "??")
}

/// a light arbitrary row (isolation is structural: what matters is that NOTHING of it changes)
fn lite_row(icao: u32) -> Plane {
    let mut p = Plane::new();
    p.icao = icao;
    p.squawk = if any_bool() { Some(any_below(7778)) } else { None };
    p.altitude = if any_bool() { Some(any_below(100000)) } else { None };
    p.capability.0 = any_below(8);
    p.ais = if any_bool() { Some(String::from("OTHER1")) } else { None };
    let age = any_i64();
    assume(age >= 0 && age < 40000);
    p.timestamp = stamp(age);
    p.cpr_time = [stamp(age), stamp(age)];
    p.cpr_lat = [any_below(1 << 17), any_below(1 << 17)];
    p.last_df = any_below(32);
    p
}

/// the fields `lite_row` makes symbolic (plus identity): enough to see ANY write to a row the
/// frame does not address, at a fraction of the cost of the full 45-field comparison
fn lite_same(a: &Plane, b: &Plane) -> bool {
    a.icao == b.icao
        && a.squawk == b.squawk
        && a.altitude == b.altitude
        && a.capability.0 == b.capability.0
        && a.ais.is_some() == b.ais.is_some()
        && a.timestamp == b.timestamp
        && a.cpr_time[0] == b.cpr_time[0]
        && a.cpr_lat == b.cpr_lat
        && a.last_df == b.last_df
        && a.vrate == b.vrate
        && a.grspeed == b.grspeed
        && a.track == b.track
}

macro_rules! table_short {
    ($name:ident, $df:expr) => {
        #[cfg_attr(kani, kani::proof)]
        #[cfg_attr(kani, kani::unwind(33))]
        #[cfg_attr(kani, kani::stub(chrono::Utc::now, crate::verif::rt::stub_now))]
        #[cfg_attr(kani, kani::stub(crate::decoder::get_downlink_format, crate::decoder::vh::rows::stub_get_df))]
        #[cfg_attr(kani, kani::stub(crate::decoder::adsb::icao::get_icao, crate::decoder::vh::rows::stub_get_icao))]
#[cfg_attr(kani, kani::stub(crate::decoder::country::country_icao_mask::icao_to_country, stub_country))]
        #[cfg_attr(verif_replay, test)]
        fn $name() {
            let m = frame14();
            pin_df(&m, $df);
            let use_update = any_bool();
            let relaxed = any_bool();
            let (ka, kb) = (any_below(1 << 24), any_below(1 << 24));
            assume(ka != 0 && kb != 0 && ka != kb);
            let (ra, rb) = (lite_row(ka), lite_row(kb));
            let Some((df, icao)) = accepted(&m) else { return };
            assume(icao != kb);
            let known = icao == ka;
            let dl = downlink_of(&m, class_of(df));
            let (ca, cb) = (clone_row(&ra), clone_row(&rb));
            let mut planes = Planes::new();
            {
                let mut t = planes.aircrafts.write().unwrap();
                t.insert(ka, ra);
                t.insert(kb, rb);
            }
            let args = mk_args(use_update, relaxed, 0);
            planes.update_aircraft(&dl, &m, df, icao, &args);
            let t = planes.aircrafts.read().unwrap();
            vcover!(known && use_update, "existing aircraft, -U");
            vcover!(known && !use_update, "existing aircraft, default path");
            vcover!(!known, "new aircraft");
            vassert!(t.len() == if known { 2 } else { 3 }, "C03: the table does not hold exactly one row per address heard");
            let Some(nb) = t.get(&kb) else { vassert!(false, "C03: another aircraft's row disappeared"); return };
            vassert!(lite_same(&cb, nb), "C03: a frame changed the row of ANOTHER aircraft");
            let Some(na) = t.get(&ka) else { vassert!(false, "C03: another aircraft's row disappeared"); return };
            if !known {
                vassert!(lite_same(&ca, na), "C03: a frame changed the row of ANOTHER aircraft");
            }
            let Some(ni) = t.get(&icao) else { vassert!(false, "C03: the frame's aircraft has no row"); return };
            vassert!(ni.icao == icao, "C03: row stored under another address");
            // the addressed row took the frame (the per-format content is the row-step harnesses' job)
            vassert!(now().signed_duration_since(ni.timestamp).num_seconds() == 0, "C03/C12: the addressed row was not refreshed by its frame");
            if !known {
                // a new row remembers nothing: only what this frame carries
                vassert!(ni.ais.is_none() && ni.vrate.is_none() && ni.grspeed.is_none() && ni.track.is_none() && ni.cpr_lat == [0, 0], "C12: a fresh row carries data the creating frame does not contain");
                if $df != 4 {
                    vassert!(ni.altitude.is_none(), "C12: a fresh row carries an altitude its creating frame does not contain");
                }
                if $df != 5 {
                    vassert!(ni.squawk.is_none(), "C12: a fresh row carries a squawk its creating frame does not contain");
                }
            }
            if $df == 5 {
                vassert!(ni.squawk == Some(id13_squawk(&m)), "C03: the addressed row did not take the frame's squawk");
            }
            if $df == 11 {
                vassert!(ni.capability.0 == bits(&m, 6, 8) as u32, "C03: the addressed row did not take the frame's capability");
            }
        }
    };
}
// @harness name=c03_table_df5 props=C03,C12,C01 tier=thorough cap=3600
// table step, any DF5 frame, two other rows, address existing or new, -U/-R symbolic
table_short!(c03_table_df5, 5);
// @harness name=c03_table_df4 props=C03,C12,C01 tier=thorough cap=3600
// table step, any DF4 frame
table_short!(c03_table_df4, 4);
// @harness name=c03_table_df11 props=C03,C12,C01 tier=thorough cap=3600
// table step, any DF11 frame (the cheapest carrying format: isolation does not depend on the format), two other rows, address existing or new, -U/-R symbolic
table_short!(c03_table_df11, 11);

// @harness props=C19 tier=thorough cap=3600
// the same DF11 frame applied to the same table under two option sets that differ in EVERY
// presentation / logging option (-i -o -c -u -M -O) leaves identical tables; a following sweep too
#[cfg_attr(kani, kani::proof)]
#[cfg_attr(kani, kani::unwind(33))]
#[cfg_attr(kani, kani::stub(chrono::Utc::now, crate::verif::rt::stub_now))]
#[cfg_attr(kani, kani::stub(crate::decoder::get_downlink_format, crate::decoder::vh::rows::stub_get_df))]
#[cfg_attr(kani, kani::stub(crate::decoder::adsb::icao::get_icao, crate::decoder::vh::rows::stub_get_icao))]
#[cfg_attr(kani, kani::stub(crate::decoder::country::country_icao_mask::icao_to_country, stub_country))]
#[cfg_attr(verif_replay, test)]
fn c19_table_options_neutral() {
    let m = frame14();
    pin_df(&m, 11);
    let use_update = any_bool();
    let relaxed = any_bool();
    let ka = any_below(1 << 24);
    assume(ka != 0);
    let ra = lite_row(ka);
    let rb = clone_row(&ra);
    let Some((df, icao)) = accepted(&m) else { return };
    let dl = downlink_of(&m, class_of(df));
    let v1 = any_below(64);
    let v2 = any_below(64);
    let (a1, a2) = (mk_args(use_update, relaxed, v1), mk_args(use_update, relaxed, v2));
    let (mut p1, mut p2) = (Planes::new(), Planes::new());
    p1.aircrafts.write().unwrap().insert(ka, ra);
    p2.aircrafts.write().unwrap().insert(ka, rb);
    p1.update_aircraft(&dl, &m, df, icao, &a1);
    p2.update_aircraft(&dl, &m, df, icao, &a2);
    let count = any_below(12);
    let (mut s1, mut s2) = (AppCounters::from_update_interval(a1.update), AppCounters::from_update_interval(a2.update));
    s1.cleanup_count = count;
    s2.cleanup_count = count;
    p1.cleanup(&mut s1, now(), a1.delete_after);
    p2.cleanup(&mut s2, now(), a2.delete_after);
    let (t1, t2) = (p1.aircrafts.read().unwrap(), p2.aircrafts.read().unwrap());
    vcover!(v1 != v2 && icao == ka, "different option sets, existing aircraft");
    vcover!(v1 != v2 && icao != ka, "different option sets, new aircraft");
    vassert!(t1.len() == t2.len(), "C19: which aircraft are in the table depends on a presentation option");
    match (t1.get(&icao), t2.get(&icao)) {
        (Some(x), Some(y)) => vassert!(lite_same(x, y), "C19: a decoded parameter depends on a presentation option"),
        (None, None) => {}
        _ => vassert!(false, "C19: which aircraft are in the table depends on a presentation option"),
    }
    match (t1.get(&ka), t2.get(&ka)) {
        (Some(x), Some(y)) => vassert!(lite_same(x, y), "C19: a decoded parameter depends on a presentation option"),
        (None, None) => {}
        _ => vassert!(false, "C19: which aircraft are in the table depends on a presentation option"),
    }
}

// @harness props=C03,C12 tier=thorough cap=5400
// two squitters of ONE aircraft into an empty table - a DF17 then a DF18 (CF symbolic), both of a type
// code the decoder does not interpret - with -U/-R symbolic: exactly one row, stored under and carrying
// the 24-bit address (no second row for a differently qualified key)
#[cfg_attr(kani, kani::proof)]
#[cfg_attr(kani, kani::unwind(33))]
#[cfg_attr(kani, kani::stub(chrono::Utc::now, crate::verif::rt::stub_now))]
#[cfg_attr(kani, kani::stub(crate::decoder::get_downlink_format, crate::decoder::vh::rows::stub_get_df))]
#[cfg_attr(kani, kani::stub(crate::decoder::utils::get_message_type, crate::decoder::vh::rows::stub_get_tc))]
#[cfg_attr(kani, kani::stub(crate::decoder::country::country_icao_mask::icao_to_country, stub_country))]
#[cfg_attr(verif_replay, test)]
fn c03_table_one_row_per_address() {
    let a = frame28();
    let b = frame28();
    assume(bits(&a, 1, 5) == 17 && bits(&b, 1, 5) == 18);
    assume(bits(&a, 33, 37) == 28 && bits(&b, 33, 37) == 28);
    let x = bits(&a, 9, 32) as u32;
    assume(x != 0 && bits(&b, 9, 32) as u32 == x);
    let use_update = any_bool();
    let relaxed = any_bool();
    let args = mk_args(use_update, relaxed, 0);
    let mut planes = Planes::new();
    unsafe {
        PIN_DF = 17;
        PIN_TC = 28;
    }
    let Some(ia) = crate::get_icao(&a, 17) else { return };
    let da = downlink_of(&a, 1);
    planes.update_aircraft(&da, &a, 17, ia, &args);
    unsafe { PIN_DF = 18 };
    let Some(ib) = crate::get_icao(&b, 18) else { return };
    let db = downlink_of(&b, 0);
    planes.update_aircraft(&db, &b, 18, ib, &args);
    let t = planes.aircrafts.read().unwrap();
    vcover!(bits(&b, 6, 8) == 1, "DF18 with CF=1");
    vcover!(use_update, "-U");
    vassert!(ia == x && ib == x, "C03: the squitters are not attributed to their AA field");
    vassert!(t.len() == 1, "C03: two frames of one address do not end up in exactly one row");
    match t.get(&x) {
        Some(r) => vassert!(r.icao == x, "C03: the row stored under the address carries another address"),
        None => vassert!(false, "C03: no row stored under the frame's address"),
    }
}

// @harness props=C03 tier=manual cap=3600
// table KEY, cheap: a DF17 then a DF18 squitter of ONE address into an empty table, where only what a table
// key can depend on is symbolic - the 24-bit address (every non-zero value), the DF18 CF field (all 8), the
// DF17 CA field (all 8), -U / -R - and the ME field is the fixed uninterpreted type code 28 (so the row
// decoders run on mostly concrete data): exactly one row, stored under and carrying the 24-bit address
#[cfg_attr(kani, kani::proof)]
#[cfg_attr(kani, kani::unwind(33))]
#[cfg_attr(kani, kani::stub(chrono::Utc::now, crate::verif::rt::stub_now))]
#[cfg_attr(kani, kani::stub(crate::decoder::get_downlink_format, crate::decoder::vh::rows::stub_get_df))]
#[cfg_attr(kani, kani::stub(crate::decoder::utils::get_message_type, crate::decoder::vh::rows::stub_get_tc))]
#[cfg_attr(kani, kani::stub(crate::decoder::country::country_icao_mask::icao_to_country, stub_country))]
#[cfg_attr(verif_replay, test)]
fn c03_table_key_df17_df18() {
    let x = any_below(1 << 24);
    assume(x != 0);
    let ca = any_below(8);
    let cf = any_below(8);
    let use_update = any_bool();
    let relaxed = any_bool();
    let mut a: Vec<u32> = vec![0; 28];
    let mut b: Vec<u32> = vec![0; 28];
    a[0] = 8;
    a[1] = 8 | ca;
    b[0] = 9;
    b[1] = cf;
    a[2] = (x >> 20) & 15;
    a[3] = (x >> 16) & 15;
    a[4] = (x >> 12) & 15;
    a[5] = (x >> 8) & 15;
    a[6] = (x >> 4) & 15;
    a[7] = x & 15;
    b[2] = a[2];
    b[3] = a[3];
    b[4] = a[4];
    b[5] = a[5];
    b[6] = a[6];
    b[7] = a[7];
    a[8] = 0xE;
    b[8] = 0xE;
    let args = mk_args(use_update, relaxed, 0);
    let mut planes = Planes::new();
    unsafe {
        PIN_DF = 17;
        PIN_TC = 28;
    }
    let da = downlink_of(&a, 1);
    planes.update_aircraft(&da, &a, 17, x, &args);
    unsafe { PIN_DF = 18 };
    let db = downlink_of(&b, 0);
    planes.update_aircraft(&db, &b, 18, x, &args);
    let t = planes.aircrafts.read().unwrap();
    vcover!(cf == 1, "DF18 with CF=1");
    vcover!(cf == 5 && use_update, "DF18 with CF=5, -U");
    vassert!(t.len() == 1, "C03: two frames of one address do not end up in exactly one row");
    match t.get(&x) {
        Some(r) => vassert!(r.icao == x, "C03: the row stored under the address carries another address"),
        None => vassert!(false, "C03: no row stored under the frame's address"),
    }
}
