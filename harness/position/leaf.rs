//! C08 (ii) leaf lemmas of the CPR decode.
use super::super::*;
use crate::verif::rt::*;
use crate::verif::spec_nl::*;

// @harness props=C08 tier=quick cap=600
// L-nl: nl(x) equals the NL table computed from the DO-260B formula, for every finite latitude
// in [-90, 90] (and beyond: any |x| <= 1000)
#[cfg_attr(kani, kani::proof)]
#[cfg_attr(kani, kani::unwind(60))]
#[cfg_attr(verif_replay, test)]
fn c08_leaf_nl() {
    let x = any_f64();
    assume(x >= -1000.0 && x <= 1000.0);
    let got = nl(x);
    let want = nl_ref(x);
    vcover!(want == 59 && x < 0.0, "equatorial zone, southern hemisphere");
    vcover!(want == 1, "polar cap");
    vcover!(want == 37, "a mid-latitude zone");
    vcover!(x == 87.0, "exactly 87 degrees");
    vassert!(got == want, "C08: NL(lat) differs from the DO-260B transition-latitude table");
}

// @harness props=C08 tier=quick cap=600
// L-fix: latitude / longitude wrap-around. For the values the decode produces (latitude in
// [0,360), longitude in (-360,360)): the result is congruent modulo 360, a northern latitude
// below 90 is unchanged, a value in (270,360) becomes southern, longitudes land in [-180,180]
#[cfg_attr(kani, kani::proof)]
#[cfg_attr(verif_replay, test)]
fn c08_leaf_wrap() {
    let la = any_f64();
    assume(la >= 0.0 && la < 360.0);
    let r = fixed_lat(la);
    vcover!(la > 270.0, "southern latitude");
    vcover!(la < 90.0, "northern latitude");
    if la < 90.0 {
        vassert!(r == la, "C08: northern latitude altered by the wrap");
    }
    if la > 270.0 {
        vassert!(r == la - 360.0 && r > -90.0 && r < 0.0, "C08: southern latitude not mapped to (-90,0)");
    }
    vassert!(r == la || r == la - 360.0, "C08: latitude wrap is not congruent modulo 360");
    let lo = any_f64();
    assume(lo > -360.0 && lo < 360.0);
    let s = signed_lon(lo);
    vcover!(lo >= 180.0, "eastern wrap");
    vcover!(lo <= -180.0, "western wrap");
    vassert!(s >= -180.0 && s <= 180.0, "C08: longitude outside [-180,180]");
    vassert!(s == lo || s == lo - 360.0 || s == lo + 360.0, "C08: longitude wrap is not congruent modulo 360");
}

// @harness props=C08 tier=quick cap=600
// L-pmod: pmod(x, y) is the mathematical x mod y in [0, y) for every longitude-zone count 1..=59
#[cfg_attr(kani, kani::proof)]
#[cfg_attr(verif_replay, test)]
fn c08_leaf_pmod() {
    let x = any_i32();
    let y = any_i32();
    assume(y >= 1 && y <= 59 && x > -200000 && x < 200000);
    let r = pmod(x, y);
    vcover!(x < 0 && r != 0, "negative dividend");
    vassert!(r >= 0 && r < y, "C08: pmod outside [0, y)");
    vassert!((x as i64 - r as i64).rem_euclid(y as i64) == 0, "C08: pmod is not congruent to x modulo y");
}
