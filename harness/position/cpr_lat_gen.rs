// @in-module cpr
// generated: latitude recovery, one instance per 6-degree even-frame zone (k = -15..=14, clipped to 87S..87N) and parity.
// The whole range in one query does not finish in 4 h; one zone takes about 20 min (measured).
// @harness name=c08_lat_zone_m15_even props=C08 tier=thorough cap=5400 family=c08lat quickpick=0 needs=kfmod
// latitude recovery for every latitude in [-90, -84) degrees (2 cm resolution), even frame newer; zone count stubbed constant
lat_cell!(c08_lat_zone_m15_even, -15, 0);
// @harness name=c08_lat_zone_m15_odd props=C08 tier=thorough cap=5400 family=c08lat quickpick=0 needs=kfmod
// latitude recovery for every latitude in [-90, -84) degrees (2 cm resolution), odd frame newer; zone count stubbed constant
lat_cell!(c08_lat_zone_m15_odd, -15, 1);
// @harness name=c08_lat_zone_m14_even props=C08 tier=thorough cap=5400 family=c08lat quickpick=0 needs=kfmod
// latitude recovery for every latitude in [-84, -78) degrees (2 cm resolution), even frame newer; zone count stubbed constant
lat_cell!(c08_lat_zone_m14_even, -14, 0);
// @harness name=c08_lat_zone_m14_odd props=C08 tier=thorough cap=5400 family=c08lat quickpick=0 needs=kfmod
// latitude recovery for every latitude in [-84, -78) degrees (2 cm resolution), odd frame newer; zone count stubbed constant
lat_cell!(c08_lat_zone_m14_odd, -14, 1);
// @harness name=c08_lat_zone_m13_even props=C08 tier=thorough cap=5400 family=c08lat quickpick=0 needs=kfmod
// latitude recovery for every latitude in [-78, -72) degrees (2 cm resolution), even frame newer; zone count stubbed constant
lat_cell!(c08_lat_zone_m13_even, -13, 0);
// @harness name=c08_lat_zone_m13_odd props=C08 tier=thorough cap=5400 family=c08lat quickpick=0 needs=kfmod
// latitude recovery for every latitude in [-78, -72) degrees (2 cm resolution), odd frame newer; zone count stubbed constant
lat_cell!(c08_lat_zone_m13_odd, -13, 1);
// @harness name=c08_lat_zone_m12_even props=C08 tier=thorough cap=5400 family=c08lat quickpick=0 needs=kfmod
// latitude recovery for every latitude in [-72, -66) degrees (2 cm resolution), even frame newer; zone count stubbed constant
lat_cell!(c08_lat_zone_m12_even, -12, 0);
// @harness name=c08_lat_zone_m12_odd props=C08 tier=thorough cap=5400 family=c08lat quickpick=0 needs=kfmod
// latitude recovery for every latitude in [-72, -66) degrees (2 cm resolution), odd frame newer; zone count stubbed constant
lat_cell!(c08_lat_zone_m12_odd, -12, 1);
// @harness name=c08_lat_zone_m11_even props=C08 tier=thorough cap=5400 family=c08lat quickpick=0 needs=kfmod
// latitude recovery for every latitude in [-66, -60) degrees (2 cm resolution), even frame newer; zone count stubbed constant
lat_cell!(c08_lat_zone_m11_even, -11, 0);
// @harness name=c08_lat_zone_m11_odd props=C08 tier=thorough cap=5400 family=c08lat quickpick=0 needs=kfmod
// latitude recovery for every latitude in [-66, -60) degrees (2 cm resolution), odd frame newer; zone count stubbed constant
lat_cell!(c08_lat_zone_m11_odd, -11, 1);
// @harness name=c08_lat_zone_m10_even props=C08 tier=thorough cap=5400 family=c08lat quickpick=0 needs=kfmod
// latitude recovery for every latitude in [-60, -54) degrees (2 cm resolution), even frame newer; zone count stubbed constant
lat_cell!(c08_lat_zone_m10_even, -10, 0);
// @harness name=c08_lat_zone_m10_odd props=C08 tier=thorough cap=5400 family=c08lat quickpick=0 needs=kfmod
// latitude recovery for every latitude in [-60, -54) degrees (2 cm resolution), odd frame newer; zone count stubbed constant
lat_cell!(c08_lat_zone_m10_odd, -10, 1);
// @harness name=c08_lat_zone_m09_even props=C08 tier=thorough cap=5400 family=c08lat quickpick=0 needs=kfmod
// latitude recovery for every latitude in [-54, -48) degrees (2 cm resolution), even frame newer; zone count stubbed constant
lat_cell!(c08_lat_zone_m09_even, -9, 0);
// @harness name=c08_lat_zone_m09_odd props=C08 tier=thorough cap=5400 family=c08lat quickpick=0 needs=kfmod
// latitude recovery for every latitude in [-54, -48) degrees (2 cm resolution), odd frame newer; zone count stubbed constant
lat_cell!(c08_lat_zone_m09_odd, -9, 1);
// @harness name=c08_lat_zone_m08_even props=C08 tier=thorough cap=5400 family=c08lat quickpick=0 needs=kfmod
// latitude recovery for every latitude in [-48, -42) degrees (2 cm resolution), even frame newer; zone count stubbed constant
lat_cell!(c08_lat_zone_m08_even, -8, 0);
// @harness name=c08_lat_zone_m08_odd props=C08 tier=thorough cap=5400 family=c08lat quickpick=0 needs=kfmod
// latitude recovery for every latitude in [-48, -42) degrees (2 cm resolution), odd frame newer; zone count stubbed constant
lat_cell!(c08_lat_zone_m08_odd, -8, 1);
// @harness name=c08_lat_zone_m07_even props=C08 tier=thorough cap=5400 family=c08lat quickpick=0 needs=kfmod
// latitude recovery for every latitude in [-42, -36) degrees (2 cm resolution), even frame newer; zone count stubbed constant
lat_cell!(c08_lat_zone_m07_even, -7, 0);
// @harness name=c08_lat_zone_m07_odd props=C08 tier=thorough cap=5400 family=c08lat quickpick=0 needs=kfmod
// latitude recovery for every latitude in [-42, -36) degrees (2 cm resolution), odd frame newer; zone count stubbed constant
lat_cell!(c08_lat_zone_m07_odd, -7, 1);
// @harness name=c08_lat_zone_m06_even props=C08 tier=thorough cap=5400 family=c08lat quickpick=0 needs=kfmod
// latitude recovery for every latitude in [-36, -30) degrees (2 cm resolution), even frame newer; zone count stubbed constant
lat_cell!(c08_lat_zone_m06_even, -6, 0);
// @harness name=c08_lat_zone_m06_odd props=C08 tier=thorough cap=5400 family=c08lat quickpick=0 needs=kfmod
// latitude recovery for every latitude in [-36, -30) degrees (2 cm resolution), odd frame newer; zone count stubbed constant
lat_cell!(c08_lat_zone_m06_odd, -6, 1);
// @harness name=c08_lat_zone_m05_even props=C08 tier=thorough cap=5400 family=c08lat quickpick=0 needs=kfmod
// latitude recovery for every latitude in [-30, -24) degrees (2 cm resolution), even frame newer; zone count stubbed constant
lat_cell!(c08_lat_zone_m05_even, -5, 0);
// @harness name=c08_lat_zone_m05_odd props=C08 tier=thorough cap=5400 family=c08lat quickpick=0 needs=kfmod
// latitude recovery for every latitude in [-30, -24) degrees (2 cm resolution), odd frame newer; zone count stubbed constant
lat_cell!(c08_lat_zone_m05_odd, -5, 1);
// @harness name=c08_lat_zone_m04_even props=C08 tier=thorough cap=5400 family=c08lat quickpick=0 needs=kfmod
// latitude recovery for every latitude in [-24, -18) degrees (2 cm resolution), even frame newer; zone count stubbed constant
lat_cell!(c08_lat_zone_m04_even, -4, 0);
// @harness name=c08_lat_zone_m04_odd props=C08 tier=thorough cap=5400 family=c08lat quickpick=0 needs=kfmod
// latitude recovery for every latitude in [-24, -18) degrees (2 cm resolution), odd frame newer; zone count stubbed constant
lat_cell!(c08_lat_zone_m04_odd, -4, 1);
// @harness name=c08_lat_zone_m03_even props=C08 tier=thorough cap=5400 family=c08lat quickpick=0 needs=kfmod
// latitude recovery for every latitude in [-18, -12) degrees (2 cm resolution), even frame newer; zone count stubbed constant
lat_cell!(c08_lat_zone_m03_even, -3, 0);
// @harness name=c08_lat_zone_m03_odd props=C08 tier=thorough cap=5400 family=c08lat quickpick=0 needs=kfmod
// latitude recovery for every latitude in [-18, -12) degrees (2 cm resolution), odd frame newer; zone count stubbed constant
lat_cell!(c08_lat_zone_m03_odd, -3, 1);
// @harness name=c08_lat_zone_m02_even props=C08 tier=thorough cap=5400 family=c08lat quickpick=0 needs=kfmod
// latitude recovery for every latitude in [-12, -6) degrees (2 cm resolution), even frame newer; zone count stubbed constant
lat_cell!(c08_lat_zone_m02_even, -2, 0);
// @harness name=c08_lat_zone_m02_odd props=C08 tier=thorough cap=5400 family=c08lat quickpick=0 needs=kfmod
// latitude recovery for every latitude in [-12, -6) degrees (2 cm resolution), odd frame newer; zone count stubbed constant
lat_cell!(c08_lat_zone_m02_odd, -2, 1);
// @harness name=c08_lat_zone_m01_even props=C08 tier=thorough cap=5400 family=c08lat quickpick=0 needs=kfmod
// latitude recovery for every latitude in [-6, 0) degrees (2 cm resolution), even frame newer; zone count stubbed constant
lat_cell!(c08_lat_zone_m01_even, -1, 0);
// @harness name=c08_lat_zone_m01_odd props=C08 tier=thorough cap=5400 family=c08lat quickpick=0 needs=kfmod
// latitude recovery for every latitude in [-6, 0) degrees (2 cm resolution), odd frame newer; zone count stubbed constant
lat_cell!(c08_lat_zone_m01_odd, -1, 1);
// @harness name=c08_lat_zone_p00_even props=C08 tier=thorough cap=5400 family=c08lat quickpick=0 needs=kfmod
// latitude recovery for every latitude in [0, 6) degrees (2 cm resolution), even frame newer; zone count stubbed constant
lat_cell!(c08_lat_zone_p00_even, 0, 0);
// @harness name=c08_lat_zone_p00_odd props=C08 tier=thorough cap=5400 family=c08lat quickpick=0 needs=kfmod
// latitude recovery for every latitude in [0, 6) degrees (2 cm resolution), odd frame newer; zone count stubbed constant
lat_cell!(c08_lat_zone_p00_odd, 0, 1);
// @harness name=c08_lat_zone_p01_even props=C08 tier=thorough cap=5400 family=c08lat quickpick=0 needs=kfmod
// latitude recovery for every latitude in [6, 12) degrees (2 cm resolution), even frame newer; zone count stubbed constant
lat_cell!(c08_lat_zone_p01_even, 1, 0);
// @harness name=c08_lat_zone_p01_odd props=C08 tier=thorough cap=5400 family=c08lat quickpick=0 needs=kfmod
// latitude recovery for every latitude in [6, 12) degrees (2 cm resolution), odd frame newer; zone count stubbed constant
lat_cell!(c08_lat_zone_p01_odd, 1, 1);
// @harness name=c08_lat_zone_p02_even props=C08 tier=thorough cap=5400 family=c08lat quickpick=0 needs=kfmod
// latitude recovery for every latitude in [12, 18) degrees (2 cm resolution), even frame newer; zone count stubbed constant
lat_cell!(c08_lat_zone_p02_even, 2, 0);
// @harness name=c08_lat_zone_p02_odd props=C08 tier=thorough cap=5400 family=c08lat quickpick=0 needs=kfmod
// latitude recovery for every latitude in [12, 18) degrees (2 cm resolution), odd frame newer; zone count stubbed constant
lat_cell!(c08_lat_zone_p02_odd, 2, 1);
// @harness name=c08_lat_zone_p03_even props=C08 tier=thorough cap=5400 family=c08lat quickpick=0 needs=kfmod
// latitude recovery for every latitude in [18, 24) degrees (2 cm resolution), even frame newer; zone count stubbed constant
lat_cell!(c08_lat_zone_p03_even, 3, 0);
// @harness name=c08_lat_zone_p03_odd props=C08 tier=thorough cap=5400 family=c08lat quickpick=0 needs=kfmod
// latitude recovery for every latitude in [18, 24) degrees (2 cm resolution), odd frame newer; zone count stubbed constant
lat_cell!(c08_lat_zone_p03_odd, 3, 1);
// @harness name=c08_lat_zone_p04_even props=C08 tier=thorough cap=5400 family=c08lat quickpick=0 needs=kfmod
// latitude recovery for every latitude in [24, 30) degrees (2 cm resolution), even frame newer; zone count stubbed constant
lat_cell!(c08_lat_zone_p04_even, 4, 0);
// @harness name=c08_lat_zone_p04_odd props=C08 tier=thorough cap=5400 family=c08lat quickpick=0 needs=kfmod
// latitude recovery for every latitude in [24, 30) degrees (2 cm resolution), odd frame newer; zone count stubbed constant
lat_cell!(c08_lat_zone_p04_odd, 4, 1);
// @harness name=c08_lat_zone_p05_even props=C08 tier=thorough cap=5400 family=c08lat quickpick=0 needs=kfmod
// latitude recovery for every latitude in [30, 36) degrees (2 cm resolution), even frame newer; zone count stubbed constant
lat_cell!(c08_lat_zone_p05_even, 5, 0);
// @harness name=c08_lat_zone_p05_odd props=C08 tier=thorough cap=5400 family=c08lat quickpick=0 needs=kfmod
// latitude recovery for every latitude in [30, 36) degrees (2 cm resolution), odd frame newer; zone count stubbed constant
lat_cell!(c08_lat_zone_p05_odd, 5, 1);
// @harness name=c08_lat_zone_p06_even props=C08 tier=thorough cap=5400 family=c08lat quickpick=0 needs=kfmod
// latitude recovery for every latitude in [36, 42) degrees (2 cm resolution), even frame newer; zone count stubbed constant
lat_cell!(c08_lat_zone_p06_even, 6, 0);
// @harness name=c08_lat_zone_p06_odd props=C08 tier=thorough cap=5400 family=c08lat quickpick=0 needs=kfmod
// latitude recovery for every latitude in [36, 42) degrees (2 cm resolution), odd frame newer; zone count stubbed constant
lat_cell!(c08_lat_zone_p06_odd, 6, 1);
// @harness name=c08_lat_zone_p07_even props=C08 tier=thorough cap=5400 family=c08lat quickpick=0 needs=kfmod
// latitude recovery for every latitude in [42, 48) degrees (2 cm resolution), even frame newer; zone count stubbed constant
lat_cell!(c08_lat_zone_p07_even, 7, 0);
// @harness name=c08_lat_zone_p07_odd props=C08 tier=thorough cap=5400 family=c08lat quickpick=0 needs=kfmod
// latitude recovery for every latitude in [42, 48) degrees (2 cm resolution), odd frame newer; zone count stubbed constant
lat_cell!(c08_lat_zone_p07_odd, 7, 1);
// @harness name=c08_lat_zone_p08_even props=C08 tier=thorough cap=5400 family=c08lat quickpick=0 needs=kfmod
// latitude recovery for every latitude in [48, 54) degrees (2 cm resolution), even frame newer; zone count stubbed constant
lat_cell!(c08_lat_zone_p08_even, 8, 0);
// @harness name=c08_lat_zone_p08_odd props=C08 tier=thorough cap=5400 family=c08lat quickpick=0 needs=kfmod
// latitude recovery for every latitude in [48, 54) degrees (2 cm resolution), odd frame newer; zone count stubbed constant
lat_cell!(c08_lat_zone_p08_odd, 8, 1);
// @harness name=c08_lat_zone_p09_even props=C08 tier=thorough cap=5400 family=c08lat quickpick=0 needs=kfmod
// latitude recovery for every latitude in [54, 60) degrees (2 cm resolution), even frame newer; zone count stubbed constant
lat_cell!(c08_lat_zone_p09_even, 9, 0);
// @harness name=c08_lat_zone_p09_odd props=C08 tier=thorough cap=5400 family=c08lat quickpick=0 needs=kfmod
// latitude recovery for every latitude in [54, 60) degrees (2 cm resolution), odd frame newer; zone count stubbed constant
lat_cell!(c08_lat_zone_p09_odd, 9, 1);
// @harness name=c08_lat_zone_p10_even props=C08 tier=thorough cap=5400 family=c08lat quickpick=0 needs=kfmod
// latitude recovery for every latitude in [60, 66) degrees (2 cm resolution), even frame newer; zone count stubbed constant
lat_cell!(c08_lat_zone_p10_even, 10, 0);
// @harness name=c08_lat_zone_p10_odd props=C08 tier=thorough cap=5400 family=c08lat quickpick=0 needs=kfmod
// latitude recovery for every latitude in [60, 66) degrees (2 cm resolution), odd frame newer; zone count stubbed constant
lat_cell!(c08_lat_zone_p10_odd, 10, 1);
// @harness name=c08_lat_zone_p11_even props=C08 tier=thorough cap=5400 family=c08lat quickpick=0 needs=kfmod
// latitude recovery for every latitude in [66, 72) degrees (2 cm resolution), even frame newer; zone count stubbed constant
lat_cell!(c08_lat_zone_p11_even, 11, 0);
// @harness name=c08_lat_zone_p11_odd props=C08 tier=thorough cap=5400 family=c08lat quickpick=0 needs=kfmod
// latitude recovery for every latitude in [66, 72) degrees (2 cm resolution), odd frame newer; zone count stubbed constant
lat_cell!(c08_lat_zone_p11_odd, 11, 1);
// @harness name=c08_lat_zone_p12_even props=C08 tier=thorough cap=5400 family=c08lat quickpick=0 needs=kfmod
// latitude recovery for every latitude in [72, 78) degrees (2 cm resolution), even frame newer; zone count stubbed constant
lat_cell!(c08_lat_zone_p12_even, 12, 0);
// @harness name=c08_lat_zone_p12_odd props=C08 tier=thorough cap=5400 family=c08lat quickpick=0 needs=kfmod
// latitude recovery for every latitude in [72, 78) degrees (2 cm resolution), odd frame newer; zone count stubbed constant
lat_cell!(c08_lat_zone_p12_odd, 12, 1);
// @harness name=c08_lat_zone_p13_even props=C08 tier=thorough cap=5400 family=c08lat quickpick=0 needs=kfmod
// latitude recovery for every latitude in [78, 84) degrees (2 cm resolution), even frame newer; zone count stubbed constant
lat_cell!(c08_lat_zone_p13_even, 13, 0);
// @harness name=c08_lat_zone_p13_odd props=C08 tier=thorough cap=5400 family=c08lat quickpick=0 needs=kfmod
// latitude recovery for every latitude in [78, 84) degrees (2 cm resolution), odd frame newer; zone count stubbed constant
lat_cell!(c08_lat_zone_p13_odd, 13, 1);
// @harness name=c08_lat_zone_p14_even props=C08 tier=thorough cap=5400 family=c08lat quickpick=0 needs=kfmod
// latitude recovery for every latitude in [84, 90) degrees (2 cm resolution), even frame newer; zone count stubbed constant
lat_cell!(c08_lat_zone_p14_even, 14, 0);
// @harness name=c08_lat_zone_p14_odd props=C08 tier=thorough cap=5400 family=c08lat quickpick=0 needs=kfmod
// latitude recovery for every latitude in [84, 90) degrees (2 cm resolution), odd frame newer; zone count stubbed constant
lat_cell!(c08_lat_zone_p14_odd, 14, 1);
