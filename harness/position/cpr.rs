//! C08 (ii) end-to-end cross-check of the real `cpr_location` (with the real `nl`, `pmod`,
//! `fixed_lat`, `signed_lon`; only the float `%` is rewritten to `kfmod`) against an EXACT-INTEGER
//! CPR *encoder*: the true position is an integer multiple of a resolution far below a CPR bin,
//! both frames are encoded from it with integer div/mod, and the decoder's answer must be within
//! one CPR bin (< 5.1 m airborne) of the truth - or absent only within two bins of an NL boundary.
use super::super::*;
use crate::verif::rt::*;
use crate::verif::spec_nl::*;

const TWO17: i32 = 1 << 17;

// ---- latitude -----------------------------------------------------------------------------------
// lat = 360 * u / KLAT, KLAT = 60*59*2^19 (resolution 2e-7 deg = 2 cm): lat/Dlat0 = u/(59*2^19),
// lat/Dlat1 = u/(60*2^19). 32-bit arithmetic on purpose (64-bit division circuits stall the solver).
const KLAT: i32 = 60 * 59 * (1 << 19);
const U87: i32 = 448_528_384; // floor(87/360 * KLAT)

fn encode_lat(u: i32) -> (u32, u32) {
    let m0 = 59 * (1i32 << 19);
    let m1 = 60 * (1i32 << 19);
    let r0 = u.rem_euclid(m0);
    let r1 = u.rem_euclid(m1);
    let yz0 = ((r0 + 59 * 2) / (59 * 4)) % TWO17; // floor(2^17 * frac + 1/2) mod 2^17
    let yz1 = ((r1 + 60 * 2) / (60 * 4)) % TWO17;
    (yz0 as u32, yz1 as u32)
}

fn lat_e2e(parity: u32) {
    let (u, yz0, yz1) = draw_lat();
    let got = cpr_location(&[yz0, yz1], &[40000, 90000], parity, 1);
    let truth = u as f64 * (360.0 / KLAT as f64);
    let bin = 360.0 / 59.0 / 131072.0;
    vcover!(u < 0 && got.is_some(), "southern hemisphere decodes");
    vcover!(u > 0 && got.is_some(), "northern hemisphere decodes");
    vcover!(got.is_none(), "a zone-straddling pair exists");
    match got {
        Some((lat, lon)) => {
            let d = lat - truth;
            vassert!(d <= bin && d >= -bin, "C08: decoded latitude is more than one CPR bin (5 m) away from the encoded latitude");
            vassert!(lat >= -90.0 && lat <= 90.0 && lon >= -180.0 && lon <= 180.0, "C08: decoded position outside latitude/longitude range");
        }
        None => {
            vassert!(nl_ref(truth - 2.0 * bin) != nl_ref(truth + 2.0 * bin), "C08: a pair encoding ONE position well inside a latitude zone is rejected");
        }
    }
}

// @harness props=C08 tier=manual cap=14400 needs=kfmod
// every latitude in 87S..87N (resolution 2 cm), even frame newer: decode within one bin of the truth
#[cfg_attr(kani, kani::proof)]
#[cfg_attr(kani, kani::unwind(60))]
#[cfg_attr(verif_replay, test)]
fn c08_lat_e2e_even_newer() {
    lat_e2e(0);
}

// @harness props=C08 tier=manual cap=14400 needs=kfmod
// every latitude in 87S..87N, odd frame newer (inexact 360/59 products)
#[cfg_attr(kani, kani::proof)]
#[cfg_attr(kani, kani::unwind(60))]
#[cfg_attr(verif_replay, test)]
fn c08_lat_e2e_odd_newer() {
    lat_e2e(1);
}

// ---- longitude, one instance per NL zone and parity -------------------------------------------
/// a latitude (in u units) in the middle of zone NL, northern or southern by seed
fn zone_mid_u(nl: i32, south: bool) -> i32 {
    // NL_TABLE[i] = (upper latitude of zone NL = 59 - i, NL)
    let idx = (59 - nl) as usize;
    let hi = NL_TABLE[idx].0;
    let lo = if idx == 0 { 0.0 } else { NL_TABLE[idx - 1].0 };
    let mid = (lo + hi) / 2.0;
    let u = (mid / 360.0 * KLAT as f64) as i32;
    if south { -u } else { u }
}

fn lon_e2e(nl: i32, parity: u32) {
    lon_e2e_cell(nl, parity, None)
}
/// `cell`: restrict the longitude to one even-frame longitude zone a0 (of NL)
fn lon_e2e_cell(nl: i32, parity: u32, cell: Option<u32>) {
    let south = crate::verif::seed::SEED % 2 == 1;
    let (yz0, yz1) = encode_lat(zone_mid_u(nl, south));
    // lon = 360 * v / KLON, KLON = NL*(NL-1)*2^19 (NL >= 2): lon/Dlon0 = v/((NL-1)*2^19), lon/Dlon1 = v/(NL*2^19).
    // As for the latitude, the two encodings are drawn and tied to v by the division lemma:
    //   v = 4*(NL-1) * (a0*2^17 + XZ0) + f0 = 4*NL * (a1*2^17 + XZ1) + f1,  |f_i| within half a step
    let n0 = nl as u32;
    let n1 = (nl - 1) as u32;
    let klon = n0 * n1 * (1u32 << 19);
    let (a0, a1) = (any_below(n0), any_below(n1));
    if let Some(c) = cell {
        assume(a0 == c);
    }
    let (xz0, xz1) = (any_below(1 << 17), any_below(1 << 17));
    if cell.is_some() {
        // quick-tier slice: the upper half of one longitude zone (the whole NL zone is the thorough tier)
        assume(xz0 >= (1 << 16));
    }
    let (f0, f1) = (any_i32(), any_i32());
    assume(f0 >= -2 * (n1 as i32) && f0 < 2 * (n1 as i32) && f1 >= -2 * (n0 as i32) && f1 < 2 * (n0 as i32));
    let vv = (4 * n1 * (a0 * (1 << 17) + xz0)) as i64 + f0 as i64;
    assume(vv == (4 * n0 * (a1 * (1 << 17) + xz1)) as i64 + f1 as i64);
    // a hair (half an encoding step, < 2 cm) next to 0/360 degrees is excluded: there the rounded field wraps
    assume(vv >= 0 && vv < klon as i64);
    let v = vv as u32;
    let got = cpr_location(&[yz0, yz1], &[xz0 as u32, xz1 as u32], parity, 1);
    let lon360 = v as f64 * (360.0 / klon as f64);
    let truth = if lon360 >= 180.0 { lon360 - 360.0 } else { lon360 };
    let ni = if parity == 1 { if n1 > 1 { n1 } else { 1 } } else { n0 };
    let bin = 360.0 / ni as f64 / 131072.0;
    vcover!(cell.is_some() || truth < -179.9, "just east of the antimeridian (whole-zone instances)");
    vcover!(cell.is_some() || truth > 179.9, "just west of the antimeridian (whole-zone instances)");
    vcover!(cell.is_some() || (truth > -0.001 && truth < 0.001), "Greenwich (whole-zone instances)");
    vcover!(xz0 > 100000 && xz1 != 0, "upper quarter of an even longitude zone");
    match got {
        Some((_lat, lon)) => {
            let d = lon - truth;
            let ok = (d <= bin && d >= -bin) || (d - 360.0 <= bin && d - 360.0 >= -bin) || (d + 360.0 <= bin && d + 360.0 >= -bin);
            vassert!(ok, "C08: decoded longitude is more than one CPR bin away from the encoded longitude");
            vassert!(lon >= -180.0 && lon <= 180.0, "C08: decoded longitude outside [-180,180]");
        }
        None => {
            vassert!(false, "C08: a pair encoding one position in the middle of a latitude zone is rejected");
        }
    }
}

macro_rules! lon_zone {
    ($name:ident, $nl:expr, $p:expr) => {
        #[cfg_attr(kani, kani::proof)]
        #[cfg_attr(kani, kani::unwind(60))]
        #[cfg_attr(verif_replay, test)]
        fn $name() {
            lon_e2e($nl, $p);
        }
    };
}
include!("cpr_lon_gen.rs");

// ---- compositional latitude half (quick tier) ----------------------------------------------------
// The monolithic latitude harness above also executes the longitude half with a SYMBOLIC zone count
// (float division by it, integer remainder by it) and does not finish in an hour. Split:
//   * c08_lat_decode_*: `nl` replaced by a constant, so the longitude half is constant work and the
//     latitude recovery (zone index j, both recovered latitudes, wrap) is decided for every latitude;
//   * c08_zone_rule: `nl` replaced by a recorder with arbitrary answers: the pair is rejected iff the
//     two answers differ, and `nl` is asked about the two recovered latitudes;
//   * c08_leaf_nl: the real `nl` equals the DO-260B table;
//   * c08_lon_nl*: the real decoder, real `nl`, concrete latitude, every longitude.
pub static mut NL_RET: [i32; 2] = [10, 10];
pub static mut NL_ARGS: [f64; 2] = [0.0; 2];
pub static mut NL_CALLS: usize = 0;
pub fn stub_nl(lat: f64) -> i32 {
    unsafe {
        let i = if NL_CALLS < 2 { NL_CALLS } else { 1 };
        NL_ARGS[i] = lat;
        NL_CALLS += 1;
        NL_RET[i]
    }
}

/// Draw a latitude together with its two CPR encodings WITHOUT division circuits (the solver stalls
/// on decode(encode(u)) when encode uses `/` and `%`): the encoder's defining relation
///   YZ_i = floor(2^17 * frac(lat / Dlat_i) + 1/2) mod 2^17
/// is equivalent to  u = (4*(59+i)) * (k_i * 2^17 + YZ_i) + e_i  with  -2*(59+i) <= e_i < 2*(59+i),
/// so (k_0, YZ_0, e_0, k_1, YZ_1, e_1) are drawn and constrained to describe the same u. Every u has
/// such a representation, so quantifying over representations covers every latitude.
fn draw_lat() -> (i32, u32, u32) {
    draw_lat_in(-16, 15)
}
/// latitudes whose even-frame zone index is in klo..=khi (each zone is 6 degrees)
/// as draw_lat_in, restricted to one sixteenth of the zone (YZ0 in [slice*8192, slice*8192+8192))
fn draw_lat_slice(k: i32, slice: i32) -> (i32, u32, u32) {
    let (u, yz0, yz1) = draw_lat_in(k, k);
    assume((yz0 as i32) >> 13 == slice);
    (u, yz0, yz1)
}
fn draw_lat_in(klo: i32, khi: i32) -> (i32, u32, u32) {
    let (k0, k1) = (any_i32(), any_i32());
    assume(k0 >= klo && k0 <= khi && k1 >= -16 && k1 <= 15);
    let (yz0, yz1) = (any_below(1 << 17) as i32, any_below(1 << 17) as i32);
    let (e0, e1) = (any_i32(), any_i32());
    assume(e0 >= -118 && e0 < 118 && e1 >= -120 && e1 < 120);
    let u = 236 * (k0 * (1 << 17) + yz0) + e0;
    assume(u == 240 * (k1 * (1 << 17) + yz1) + e1);
    assume(u >= -U87 && u <= U87);
    (u, yz0 as u32, yz1 as u32)
}

fn lat_decode(parity: u32) {
    lat_decode_in(parity, -16, 15)
}
fn lat_decode_in(parity: u32, klo: i32, khi: i32) {
    lat_decode_of(parity, draw_lat_in(klo, khi))
}
fn e_nonzero(u: i32) -> bool {
    u % 236 != 0
}
fn lat_decode_of(parity: u32, drawn: (i32, u32, u32)) {
    let (u, yz0, yz1) = drawn;
    let got = cpr_location(&[yz0, yz1], &[40000, 90000], parity, 1);
    let truth = u as f64 * (360.0 / KLAT as f64);
    let bin = 360.0 / 59.0 / 131072.0;
    vcover!(got.is_some() && e_nonzero(u), "a latitude that is not an exact multiple of the encoding step decodes");
    match got {
        Some((lat, _)) => {
            let d = lat - truth;
            vassert!(d <= bin && d >= -bin, "C08: decoded latitude is more than one CPR bin (5 m) away from the encoded latitude");
        }
        None => {
            #[cfg(kani)]
            vassert!(false, "C08: pair rejected although both latitudes are reported to be in the same zone");
            #[cfg(not(kani))]
            vassert!(nl_ref(truth - 2.0 * bin) != nl_ref(truth + 2.0 * bin), "C08: a pair encoding ONE position well inside a latitude zone is rejected");
        }
    }
    #[cfg(kani)]
    unsafe {
        // nl() is consulted about the two recovered latitudes, both within a bin of the truth
        vassert!(NL_CALLS == 2, "C08: the zone count is not looked up for both recovered latitudes");
        let (d0, d1) = (NL_ARGS[0] - truth, NL_ARGS[1] - truth);
        vassert!(d0 <= bin && d0 >= -bin && d1 <= bin && d1 >= -bin, "C08: a recovered latitude handed to NL() is more than a bin away from the encoded latitude");
    }
}



// @harness props=C08 tier=quick cap=1800 needs=kfmod
// zone rule: for all 2^68 CPR fields, the pair is rejected iff NL of the two recovered latitudes differ
// (NL as an arbitrary-answer recorder); airborne coefficient
#[cfg_attr(kani, kani::proof)]
#[cfg_attr(kani, kani::unwind(60))]
#[cfg_attr(kani, kani::stub(crate::decoder::adsb::position::nl, stub_nl))]
#[cfg_attr(verif_replay, test)]
fn c08_zone_rule() {
    let lat = [any_below(1 << 17), any_below(1 << 17)];
    let lon = [any_below(1 << 17), any_below(1 << 17)];
    let parity = any_below(2);
    let (a, b) = (any_i32(), any_i32());
    assume(a >= 1 && a <= 59 && b >= 1 && b <= 59);
    unsafe {
        NL_RET = [a, b];
        NL_CALLS = 0;
    }
    let got = cpr_location(&lat, &lon, parity, 1);
    #[cfg(kani)]
    {
        vcover!(a != b, "zone-straddling pair");
        vcover!(a == b && a == 1, "polar cap pair");
        vassert!(got.is_none() == (a != b), "C08: a pair is displayed although its two latitudes lie in different longitude-zone counts (or rejected although they agree)");
    }
    #[cfg(not(kani))]
    {
        let _ = got;
    }
}

macro_rules! lat_cell {
    ($name:ident, $k:expr, $p:expr) => {
        #[cfg_attr(kani, kani::proof)]
        #[cfg_attr(kani, kani::unwind(60))]
        #[cfg_attr(kani, kani::stub(crate::decoder::adsb::position::nl, stub_nl))]
        #[cfg_attr(verif_replay, test)]
        fn $name() {
            lat_decode_in($p, $k, $k);
        }
    };
}
include!("cpr_lat_gen.rs");

/// seeded choice of a zone (k in -14..=13) and a sixteenth of it
const fn seeded(i: u64, n: u64) -> u64 {
    let mut x = crate::verif::seed::SEED.wrapping_mul(6364136223846793005).wrapping_add(1442695040888963407 + i * 104729);
    x ^= x >> 31;
    x = x.wrapping_mul(0x9E3779B97F4A7C15);
    x ^= x >> 29;
    x % n
}

// @harness props=C08 tier=quick cap=1500 needs=kfmod
// latitude recovery on a SEEDED SOUTHERN slice (one sixteenth of one 6-degree zone, 0.375 deg), even frame newer:
// decode within one CPR bin of the encoded latitude (the whole zone takes 20 min: thorough tier)
#[cfg_attr(kani, kani::proof)]
#[cfg_attr(kani, kani::unwind(60))]
#[cfg_attr(kani, kani::stub(crate::decoder::adsb::position::nl, stub_nl))]
#[cfg_attr(verif_replay, test)]
fn c08_lat_slice_even() {
    const K: i32 = -1 - (seeded(1, 14) as i32); // a SOUTHERN zone (negative zone index)
    const S: i32 = seeded(2, 16) as i32;
    lat_decode_of(0, draw_lat_slice(K, S));
}

// @harness props=C08 tier=quick cap=1500 needs=kfmod
// latitude recovery on a seeded NORTHERN slice, odd frame newer
#[cfg_attr(kani, kani::proof)]
#[cfg_attr(kani, kani::unwind(60))]
#[cfg_attr(kani, kani::stub(crate::decoder::adsb::position::nl, stub_nl))]
#[cfg_attr(verif_replay, test)]
fn c08_lat_slice_odd() {
    const K: i32 = seeded(3, 14) as i32; // a NORTHERN zone
    const S: i32 = seeded(4, 16) as i32;
    lat_decode_of(1, draw_lat_slice(K, S));
}

// @harness props=C08 tier=quick cap=1500 needs=kfmod
// longitude recovery with the real decoder on a seeded NL zone and a seeded even-frame longitude zone
// (360/NL degrees wide), even frame newer
#[cfg_attr(kani, kani::proof)]
#[cfg_attr(kani, kani::unwind(60))]
#[cfg_attr(verif_replay, test)]
fn c08_lon_slice_even() {
    const NL: i32 = seeded(5, 58) as i32 + 2;
    // a longitude zone in the EASTERN half
    lon_e2e_cell(NL, 0, Some(seeded(6, (NL / 2).max(1) as u64) as u32));
}

// @harness props=C08 tier=quick cap=1500 needs=kfmod
// longitude recovery on another seeded NL zone / longitude zone, odd frame newer
#[cfg_attr(kani, kani::proof)]
#[cfg_attr(kani, kani::unwind(60))]
#[cfg_attr(verif_replay, test)]
fn c08_lon_slice_odd() {
    const NL: i32 = seeded(7, 58) as i32 + 2;
    // a longitude zone in the WESTERN half (where the two frames' zone numbers differ and the raw index m is negative)
    lon_e2e_cell(NL, 1, Some((NL / 2) as u32 + seeded(8, (NL - NL / 2) as u64) as u32));
}
