//! C08 (ii) end-to-end cross-check of the real `cpr_location` (with the real `nl`, `pmod`,
//! `fixed_lat`, `signed_lon`; only the float `%` is rewritten to `kfmod`) against an EXACT-INTEGER
//! CPR *encoder*: the true position is an integer multiple of a resolution far below a CPR bin,
//! both frames are encoded from it with integer div/mod, and the decoder's answer must be within
//! one CPR bin (< 5.1 m airborne) of the truth - or absent only within two bins of an NL boundary.
use super::super::*;
use crate::verif::rt::*;
use crate::verif::spec_nl::*;

const TWO17: i32 = 1 << 17;

// ---- latitude -----------------------------------------------------------------------------------
// lat = 360 * u / KLAT, KLAT = 60*59*2^19 (resolution 2e-7 deg = 2 cm): lat/Dlat0 = u/(59*2^19),
// lat/Dlat1 = u/(60*2^19). 32-bit arithmetic on purpose (64-bit division circuits stall the solver).
const KLAT: i32 = 60 * 59 * (1 << 19);
const U87: i32 = 448_528_384; // floor(87/360 * KLAT)

fn encode_lat(u: i32) -> (u32, u32) {
    let m0 = 59 * (1i32 << 19);
    let m1 = 60 * (1i32 << 19);
    let r0 = u.rem_euclid(m0);
    let r1 = u.rem_euclid(m1);
    let yz0 = ((r0 + 59 * 2) / (59 * 4)) % TWO17; // floor(2^17 * frac + 1/2) mod 2^17
    let yz1 = ((r1 + 60 * 2) / (60 * 4)) % TWO17;
    (yz0 as u32, yz1 as u32)
}

fn lat_e2e(parity: u32) {
    let u = any_i32();
    assume(u >= -U87 && u <= U87);
    let (yz0, yz1) = encode_lat(u);
    let got = cpr_location(&[yz0, yz1], &[40000, 90000], parity, 1);
    let truth = u as f64 * (360.0 / KLAT as f64);
    let bin = 360.0 / 59.0 / 131072.0;
    vcover!(u < 0 && got.is_some(), "southern hemisphere decodes");
    vcover!(u > 0 && got.is_some(), "northern hemisphere decodes");
    vcover!(got.is_none(), "a zone-straddling pair exists");
    match got {
        Some((lat, lon)) => {
            let d = lat - truth;
            vassert!(d <= bin && d >= -bin, "C08: decoded latitude is more than one CPR bin (5 m) away from the encoded latitude");
            vassert!(lat >= -90.0 && lat <= 90.0 && lon >= -180.0 && lon <= 180.0, "C08: decoded position outside latitude/longitude range");
        }
        None => {
            vassert!(nl_ref(truth - 2.0 * bin) != nl_ref(truth + 2.0 * bin), "C08: a pair encoding ONE position well inside a latitude zone is rejected");
        }
    }
}

// @harness props=C08 tier=thorough cap=7200 needs=kfmod
// every latitude in 87S..87N (resolution 2 cm), even frame newer: decode within one bin of the truth
#[cfg_attr(kani, kani::proof)]
#[cfg_attr(kani, kani::unwind(60))]
#[cfg_attr(verif_replay, test)]
fn c08_lat_e2e_even_newer() {
    lat_e2e(0);
}

// @harness props=C08 tier=thorough cap=3600 needs=kfmod
// every latitude in 87S..87N, odd frame newer (inexact 360/59 products)
#[cfg_attr(kani, kani::proof)]
#[cfg_attr(kani, kani::unwind(60))]
#[cfg_attr(verif_replay, test)]
fn c08_lat_e2e_odd_newer() {
    lat_e2e(1);
}

// ---- longitude, one instance per NL zone and parity -------------------------------------------
/// a latitude (in u units) in the middle of zone NL, northern or southern by seed
fn zone_mid_u(nl: i32, south: bool) -> i32 {
    // NL_TABLE[i] = (upper latitude of zone NL = 59 - i, NL)
    let idx = (59 - nl) as usize;
    let hi = NL_TABLE[idx].0;
    let lo = if idx == 0 { 0.0 } else { NL_TABLE[idx - 1].0 };
    let mid = (lo + hi) / 2.0;
    let u = (mid / 360.0 * KLAT as f64) as i32;
    if south { -u } else { u }
}

fn lon_e2e(nl: i32, parity: u32) {
    let south = crate::verif::seed::SEED % 2 == 1;
    let (yz0, yz1) = encode_lat(zone_mid_u(nl, south));
    // lon = 360 * v / KLON, KLON = NL*(NL-1)*2^19 (NL >= 2): lon/Dlon0 = v/((NL-1)*2^19), lon/Dlon1 = v/(NL*2^19)
    let n0 = nl as u32;
    let n1 = (nl - 1) as u32;
    let klon = n0 * n1 * (1u32 << 19);
    let v = any_u32();
    assume(v < klon);
    let r0 = v % (n1 * (1u32 << 19));
    let r1 = v % (n0 * (1u32 << 19));
    let xz0 = ((r0 + n1 * 2) / (n1 * 4)) % (1 << 17);
    let xz1 = ((r1 + n0 * 2) / (n0 * 4)) % (1 << 17);
    let got = cpr_location(&[yz0, yz1], &[xz0 as u32, xz1 as u32], parity, 1);
    let lon360 = v as f64 * (360.0 / klon as f64);
    let truth = if lon360 >= 180.0 { lon360 - 360.0 } else { lon360 };
    let ni = if parity == 1 { if n1 > 1 { n1 } else { 1 } } else { n0 };
    let bin = 360.0 / ni as f64 / 131072.0;
    vcover!(truth < -179.9, "just east of the antimeridian");
    vcover!(truth > 179.9, "just west of the antimeridian");
    vcover!(truth > -0.001 && truth < 0.001, "Greenwich");
    match got {
        Some((_lat, lon)) => {
            let d = lon - truth;
            let ok = (d <= bin && d >= -bin) || (d - 360.0 <= bin && d - 360.0 >= -bin) || (d + 360.0 <= bin && d + 360.0 >= -bin);
            vassert!(ok, "C08: decoded longitude is more than one CPR bin away from the encoded longitude");
            vassert!(lon >= -180.0 && lon <= 180.0, "C08: decoded longitude outside [-180,180]");
        }
        None => {
            vassert!(false, "C08: a pair encoding one position in the middle of a latitude zone is rejected");
        }
    }
}

macro_rules! lon_zone {
    ($name:ident, $nl:expr, $p:expr) => {
        #[cfg_attr(kani, kani::proof)]
        #[cfg_attr(kani, kani::unwind(60))]
        #[cfg_attr(verif_replay, test)]
        fn $name() {
            lon_e2e($nl, $p);
        }
    };
}
include!("cpr_lon_gen.rs");
