//! Injected at `src/decoder/adsb/position/vh/`: child of `position`, reaches the private CPR
//! leaves `nl`, `pmod`, `fixed_lat`, `signed_lon`.
#![allow(dead_code, unused_imports, unused_variables, unused_mut, clippy::all)]
mod cpr;
mod leaf;
