// @in-module cpr
// generated: one longitude instance per NL zone (2..=59) and parity; all longitudes at 5 mm resolution
// @harness name=c08_lon_nl02_even props=C08 tier=thorough cap=7200 family=c08lon quickpick=0 needs=kfmod
// all longitudes in latitude zone NL=2 (latitude mid-zone, hemisphere by seed), even frame newer
lon_zone!(c08_lon_nl02_even, 2, 0);
// @harness name=c08_lon_nl02_odd props=C08 tier=thorough cap=7200 family=c08lon quickpick=0 needs=kfmod
// all longitudes in latitude zone NL=2 (latitude mid-zone, hemisphere by seed), odd frame newer
lon_zone!(c08_lon_nl02_odd, 2, 1);
// @harness name=c08_lon_nl03_even props=C08 tier=thorough cap=7200 family=c08lon quickpick=0 needs=kfmod
// all longitudes in latitude zone NL=3 (latitude mid-zone, hemisphere by seed), even frame newer
lon_zone!(c08_lon_nl03_even, 3, 0);
// @harness name=c08_lon_nl03_odd props=C08 tier=thorough cap=7200 family=c08lon quickpick=0 needs=kfmod
// all longitudes in latitude zone NL=3 (latitude mid-zone, hemisphere by seed), odd frame newer
lon_zone!(c08_lon_nl03_odd, 3, 1);
// @harness name=c08_lon_nl04_even props=C08 tier=thorough cap=7200 family=c08lon quickpick=0 needs=kfmod
// all longitudes in latitude zone NL=4 (latitude mid-zone, hemisphere by seed), even frame newer
lon_zone!(c08_lon_nl04_even, 4, 0);
// @harness name=c08_lon_nl04_odd props=C08 tier=thorough cap=7200 family=c08lon quickpick=0 needs=kfmod
// all longitudes in latitude zone NL=4 (latitude mid-zone, hemisphere by seed), odd frame newer
lon_zone!(c08_lon_nl04_odd, 4, 1);
// @harness name=c08_lon_nl05_even props=C08 tier=thorough cap=7200 family=c08lon quickpick=0 needs=kfmod
// all longitudes in latitude zone NL=5 (latitude mid-zone, hemisphere by seed), even frame newer
lon_zone!(c08_lon_nl05_even, 5, 0);
// @harness name=c08_lon_nl05_odd props=C08 tier=thorough cap=7200 family=c08lon quickpick=0 needs=kfmod
// all longitudes in latitude zone NL=5 (latitude mid-zone, hemisphere by seed), odd frame newer
lon_zone!(c08_lon_nl05_odd, 5, 1);
// @harness name=c08_lon_nl06_even props=C08 tier=thorough cap=7200 family=c08lon quickpick=0 needs=kfmod
// all longitudes in latitude zone NL=6 (latitude mid-zone, hemisphere by seed), even frame newer
lon_zone!(c08_lon_nl06_even, 6, 0);
// @harness name=c08_lon_nl06_odd props=C08 tier=thorough cap=7200 family=c08lon quickpick=0 needs=kfmod
// all longitudes in latitude zone NL=6 (latitude mid-zone, hemisphere by seed), odd frame newer
lon_zone!(c08_lon_nl06_odd, 6, 1);
// @harness name=c08_lon_nl07_even props=C08 tier=thorough cap=7200 family=c08lon quickpick=0 needs=kfmod
// all longitudes in latitude zone NL=7 (latitude mid-zone, hemisphere by seed), even frame newer
lon_zone!(c08_lon_nl07_even, 7, 0);
// @harness name=c08_lon_nl07_odd props=C08 tier=thorough cap=7200 family=c08lon quickpick=0 needs=kfmod
// all longitudes in latitude zone NL=7 (latitude mid-zone, hemisphere by seed), odd frame newer
lon_zone!(c08_lon_nl07_odd, 7, 1);
// @harness name=c08_lon_nl08_even props=C08 tier=thorough cap=7200 family=c08lon quickpick=0 needs=kfmod
// all longitudes in latitude zone NL=8 (latitude mid-zone, hemisphere by seed), even frame newer
lon_zone!(c08_lon_nl08_even, 8, 0);
// @harness name=c08_lon_nl08_odd props=C08 tier=thorough cap=7200 family=c08lon quickpick=0 needs=kfmod
// all longitudes in latitude zone NL=8 (latitude mid-zone, hemisphere by seed), odd frame newer
lon_zone!(c08_lon_nl08_odd, 8, 1);
// @harness name=c08_lon_nl09_even props=C08 tier=thorough cap=7200 family=c08lon quickpick=0 needs=kfmod
// all longitudes in latitude zone NL=9 (latitude mid-zone, hemisphere by seed), even frame newer
lon_zone!(c08_lon_nl09_even, 9, 0);
// @harness name=c08_lon_nl09_odd props=C08 tier=thorough cap=7200 family=c08lon quickpick=0 needs=kfmod
// all longitudes in latitude zone NL=9 (latitude mid-zone, hemisphere by seed), odd frame newer
lon_zone!(c08_lon_nl09_odd, 9, 1);
// @harness name=c08_lon_nl10_even props=C08 tier=thorough cap=7200 family=c08lon quickpick=0 needs=kfmod
// all longitudes in latitude zone NL=10 (latitude mid-zone, hemisphere by seed), even frame newer
lon_zone!(c08_lon_nl10_even, 10, 0);
// @harness name=c08_lon_nl10_odd props=C08 tier=thorough cap=7200 family=c08lon quickpick=0 needs=kfmod
// all longitudes in latitude zone NL=10 (latitude mid-zone, hemisphere by seed), odd frame newer
lon_zone!(c08_lon_nl10_odd, 10, 1);
// @harness name=c08_lon_nl11_even props=C08 tier=thorough cap=7200 family=c08lon quickpick=0 needs=kfmod
// all longitudes in latitude zone NL=11 (latitude mid-zone, hemisphere by seed), even frame newer
lon_zone!(c08_lon_nl11_even, 11, 0);
// @harness name=c08_lon_nl11_odd props=C08 tier=thorough cap=7200 family=c08lon quickpick=0 needs=kfmod
// all longitudes in latitude zone NL=11 (latitude mid-zone, hemisphere by seed), odd frame newer
lon_zone!(c08_lon_nl11_odd, 11, 1);
// @harness name=c08_lon_nl12_even props=C08 tier=thorough cap=7200 family=c08lon quickpick=0 needs=kfmod
// all longitudes in latitude zone NL=12 (latitude mid-zone, hemisphere by seed), even frame newer
lon_zone!(c08_lon_nl12_even, 12, 0);
// @harness name=c08_lon_nl12_odd props=C08 tier=thorough cap=7200 family=c08lon quickpick=0 needs=kfmod
// all longitudes in latitude zone NL=12 (latitude mid-zone, hemisphere by seed), odd frame newer
lon_zone!(c08_lon_nl12_odd, 12, 1);
// @harness name=c08_lon_nl13_even props=C08 tier=thorough cap=7200 family=c08lon quickpick=0 needs=kfmod
// all longitudes in latitude zone NL=13 (latitude mid-zone, hemisphere by seed), even frame newer
lon_zone!(c08_lon_nl13_even, 13, 0);
// @harness name=c08_lon_nl13_odd props=C08 tier=thorough cap=7200 family=c08lon quickpick=0 needs=kfmod
// all longitudes in latitude zone NL=13 (latitude mid-zone, hemisphere by seed), odd frame newer
lon_zone!(c08_lon_nl13_odd, 13, 1);
// @harness name=c08_lon_nl14_even props=C08 tier=thorough cap=7200 family=c08lon quickpick=0 needs=kfmod
// all longitudes in latitude zone NL=14 (latitude mid-zone, hemisphere by seed), even frame newer
lon_zone!(c08_lon_nl14_even, 14, 0);
// @harness name=c08_lon_nl14_odd props=C08 tier=thorough cap=7200 family=c08lon quickpick=0 needs=kfmod
// all longitudes in latitude zone NL=14 (latitude mid-zone, hemisphere by seed), odd frame newer
lon_zone!(c08_lon_nl14_odd, 14, 1);
// @harness name=c08_lon_nl15_even props=C08 tier=thorough cap=7200 family=c08lon quickpick=0 needs=kfmod
// all longitudes in latitude zone NL=15 (latitude mid-zone, hemisphere by seed), even frame newer
lon_zone!(c08_lon_nl15_even, 15, 0);
// @harness name=c08_lon_nl15_odd props=C08 tier=thorough cap=7200 family=c08lon quickpick=0 needs=kfmod
// all longitudes in latitude zone NL=15 (latitude mid-zone, hemisphere by seed), odd frame newer
lon_zone!(c08_lon_nl15_odd, 15, 1);
// @harness name=c08_lon_nl16_even props=C08 tier=thorough cap=7200 family=c08lon quickpick=0 needs=kfmod
// all longitudes in latitude zone NL=16 (latitude mid-zone, hemisphere by seed), even frame newer
lon_zone!(c08_lon_nl16_even, 16, 0);
// @harness name=c08_lon_nl16_odd props=C08 tier=thorough cap=7200 family=c08lon quickpick=0 needs=kfmod
// all longitudes in latitude zone NL=16 (latitude mid-zone, hemisphere by seed), odd frame newer
lon_zone!(c08_lon_nl16_odd, 16, 1);
// @harness name=c08_lon_nl17_even props=C08 tier=thorough cap=7200 family=c08lon quickpick=0 needs=kfmod
// all longitudes in latitude zone NL=17 (latitude mid-zone, hemisphere by seed), even frame newer
lon_zone!(c08_lon_nl17_even, 17, 0);
// @harness name=c08_lon_nl17_odd props=C08 tier=thorough cap=7200 family=c08lon quickpick=0 needs=kfmod
// all longitudes in latitude zone NL=17 (latitude mid-zone, hemisphere by seed), odd frame newer
lon_zone!(c08_lon_nl17_odd, 17, 1);
// @harness name=c08_lon_nl18_even props=C08 tier=thorough cap=7200 family=c08lon quickpick=0 needs=kfmod
// all longitudes in latitude zone NL=18 (latitude mid-zone, hemisphere by seed), even frame newer
lon_zone!(c08_lon_nl18_even, 18, 0);
// @harness name=c08_lon_nl18_odd props=C08 tier=thorough cap=7200 family=c08lon quickpick=0 needs=kfmod
// all longitudes in latitude zone NL=18 (latitude mid-zone, hemisphere by seed), odd frame newer
lon_zone!(c08_lon_nl18_odd, 18, 1);
// @harness name=c08_lon_nl19_even props=C08 tier=thorough cap=7200 family=c08lon quickpick=0 needs=kfmod
// all longitudes in latitude zone NL=19 (latitude mid-zone, hemisphere by seed), even frame newer
lon_zone!(c08_lon_nl19_even, 19, 0);
// @harness name=c08_lon_nl19_odd props=C08 tier=thorough cap=7200 family=c08lon quickpick=0 needs=kfmod
// all longitudes in latitude zone NL=19 (latitude mid-zone, hemisphere by seed), odd frame newer
lon_zone!(c08_lon_nl19_odd, 19, 1);
// @harness name=c08_lon_nl20_even props=C08 tier=thorough cap=7200 family=c08lon quickpick=0 needs=kfmod
// all longitudes in latitude zone NL=20 (latitude mid-zone, hemisphere by seed), even frame newer
lon_zone!(c08_lon_nl20_even, 20, 0);
// @harness name=c08_lon_nl20_odd props=C08 tier=thorough cap=7200 family=c08lon quickpick=0 needs=kfmod
// all longitudes in latitude zone NL=20 (latitude mid-zone, hemisphere by seed), odd frame newer
lon_zone!(c08_lon_nl20_odd, 20, 1);
// @harness name=c08_lon_nl21_even props=C08 tier=thorough cap=7200 family=c08lon quickpick=0 needs=kfmod
// all longitudes in latitude zone NL=21 (latitude mid-zone, hemisphere by seed), even frame newer
lon_zone!(c08_lon_nl21_even, 21, 0);
// @harness name=c08_lon_nl21_odd props=C08 tier=thorough cap=7200 family=c08lon quickpick=0 needs=kfmod
// all longitudes in latitude zone NL=21 (latitude mid-zone, hemisphere by seed), odd frame newer
lon_zone!(c08_lon_nl21_odd, 21, 1);
// @harness name=c08_lon_nl22_even props=C08 tier=thorough cap=7200 family=c08lon quickpick=0 needs=kfmod
// all longitudes in latitude zone NL=22 (latitude mid-zone, hemisphere by seed), even frame newer
lon_zone!(c08_lon_nl22_even, 22, 0);
// @harness name=c08_lon_nl22_odd props=C08 tier=thorough cap=7200 family=c08lon quickpick=0 needs=kfmod
// all longitudes in latitude zone NL=22 (latitude mid-zone, hemisphere by seed), odd frame newer
lon_zone!(c08_lon_nl22_odd, 22, 1);
// @harness name=c08_lon_nl23_even props=C08 tier=thorough cap=7200 family=c08lon quickpick=0 needs=kfmod
// all longitudes in latitude zone NL=23 (latitude mid-zone, hemisphere by seed), even frame newer
lon_zone!(c08_lon_nl23_even, 23, 0);
// @harness name=c08_lon_nl23_odd props=C08 tier=thorough cap=7200 family=c08lon quickpick=0 needs=kfmod
// all longitudes in latitude zone NL=23 (latitude mid-zone, hemisphere by seed), odd frame newer
lon_zone!(c08_lon_nl23_odd, 23, 1);
// @harness name=c08_lon_nl24_even props=C08 tier=thorough cap=7200 family=c08lon quickpick=0 needs=kfmod
// all longitudes in latitude zone NL=24 (latitude mid-zone, hemisphere by seed), even frame newer
lon_zone!(c08_lon_nl24_even, 24, 0);
// @harness name=c08_lon_nl24_odd props=C08 tier=thorough cap=7200 family=c08lon quickpick=0 needs=kfmod
// all longitudes in latitude zone NL=24 (latitude mid-zone, hemisphere by seed), odd frame newer
lon_zone!(c08_lon_nl24_odd, 24, 1);
// @harness name=c08_lon_nl25_even props=C08 tier=thorough cap=7200 family=c08lon quickpick=0 needs=kfmod
// all longitudes in latitude zone NL=25 (latitude mid-zone, hemisphere by seed), even frame newer
lon_zone!(c08_lon_nl25_even, 25, 0);
// @harness name=c08_lon_nl25_odd props=C08 tier=thorough cap=7200 family=c08lon quickpick=0 needs=kfmod
// all longitudes in latitude zone NL=25 (latitude mid-zone, hemisphere by seed), odd frame newer
lon_zone!(c08_lon_nl25_odd, 25, 1);
// @harness name=c08_lon_nl26_even props=C08 tier=thorough cap=7200 family=c08lon quickpick=0 needs=kfmod
// all longitudes in latitude zone NL=26 (latitude mid-zone, hemisphere by seed), even frame newer
lon_zone!(c08_lon_nl26_even, 26, 0);
// @harness name=c08_lon_nl26_odd props=C08 tier=thorough cap=7200 family=c08lon quickpick=0 needs=kfmod
// all longitudes in latitude zone NL=26 (latitude mid-zone, hemisphere by seed), odd frame newer
lon_zone!(c08_lon_nl26_odd, 26, 1);
// @harness name=c08_lon_nl27_even props=C08 tier=thorough cap=7200 family=c08lon quickpick=0 needs=kfmod
// all longitudes in latitude zone NL=27 (latitude mid-zone, hemisphere by seed), even frame newer
lon_zone!(c08_lon_nl27_even, 27, 0);
// @harness name=c08_lon_nl27_odd props=C08 tier=thorough cap=7200 family=c08lon quickpick=0 needs=kfmod
// all longitudes in latitude zone NL=27 (latitude mid-zone, hemisphere by seed), odd frame newer
lon_zone!(c08_lon_nl27_odd, 27, 1);
// @harness name=c08_lon_nl28_even props=C08 tier=thorough cap=7200 family=c08lon quickpick=0 needs=kfmod
// all longitudes in latitude zone NL=28 (latitude mid-zone, hemisphere by seed), even frame newer
lon_zone!(c08_lon_nl28_even, 28, 0);
// @harness name=c08_lon_nl28_odd props=C08 tier=thorough cap=7200 family=c08lon quickpick=0 needs=kfmod
// all longitudes in latitude zone NL=28 (latitude mid-zone, hemisphere by seed), odd frame newer
lon_zone!(c08_lon_nl28_odd, 28, 1);
// @harness name=c08_lon_nl29_even props=C08 tier=thorough cap=7200 family=c08lon quickpick=0 needs=kfmod
// all longitudes in latitude zone NL=29 (latitude mid-zone, hemisphere by seed), even frame newer
lon_zone!(c08_lon_nl29_even, 29, 0);
// @harness name=c08_lon_nl29_odd props=C08 tier=thorough cap=7200 family=c08lon quickpick=0 needs=kfmod
// all longitudes in latitude zone NL=29 (latitude mid-zone, hemisphere by seed), odd frame newer
lon_zone!(c08_lon_nl29_odd, 29, 1);
// @harness name=c08_lon_nl30_even props=C08 tier=thorough cap=7200 family=c08lon quickpick=0 needs=kfmod
// all longitudes in latitude zone NL=30 (latitude mid-zone, hemisphere by seed), even frame newer
lon_zone!(c08_lon_nl30_even, 30, 0);
// @harness name=c08_lon_nl30_odd props=C08 tier=thorough cap=7200 family=c08lon quickpick=0 needs=kfmod
// all longitudes in latitude zone NL=30 (latitude mid-zone, hemisphere by seed), odd frame newer
lon_zone!(c08_lon_nl30_odd, 30, 1);
// @harness name=c08_lon_nl31_even props=C08 tier=thorough cap=7200 family=c08lon quickpick=0 needs=kfmod
// all longitudes in latitude zone NL=31 (latitude mid-zone, hemisphere by seed), even frame newer
lon_zone!(c08_lon_nl31_even, 31, 0);
// @harness name=c08_lon_nl31_odd props=C08 tier=thorough cap=7200 family=c08lon quickpick=0 needs=kfmod
// all longitudes in latitude zone NL=31 (latitude mid-zone, hemisphere by seed), odd frame newer
lon_zone!(c08_lon_nl31_odd, 31, 1);
// @harness name=c08_lon_nl32_even props=C08 tier=thorough cap=7200 family=c08lon quickpick=0 needs=kfmod
// all longitudes in latitude zone NL=32 (latitude mid-zone, hemisphere by seed), even frame newer
lon_zone!(c08_lon_nl32_even, 32, 0);
// @harness name=c08_lon_nl32_odd props=C08 tier=thorough cap=7200 family=c08lon quickpick=0 needs=kfmod
// all longitudes in latitude zone NL=32 (latitude mid-zone, hemisphere by seed), odd frame newer
lon_zone!(c08_lon_nl32_odd, 32, 1);
// @harness name=c08_lon_nl33_even props=C08 tier=thorough cap=7200 family=c08lon quickpick=0 needs=kfmod
// all longitudes in latitude zone NL=33 (latitude mid-zone, hemisphere by seed), even frame newer
lon_zone!(c08_lon_nl33_even, 33, 0);
// @harness name=c08_lon_nl33_odd props=C08 tier=thorough cap=7200 family=c08lon quickpick=0 needs=kfmod
// all longitudes in latitude zone NL=33 (latitude mid-zone, hemisphere by seed), odd frame newer
lon_zone!(c08_lon_nl33_odd, 33, 1);
// @harness name=c08_lon_nl34_even props=C08 tier=thorough cap=7200 family=c08lon quickpick=0 needs=kfmod
// all longitudes in latitude zone NL=34 (latitude mid-zone, hemisphere by seed), even frame newer
lon_zone!(c08_lon_nl34_even, 34, 0);
// @harness name=c08_lon_nl34_odd props=C08 tier=thorough cap=7200 family=c08lon quickpick=0 needs=kfmod
// all longitudes in latitude zone NL=34 (latitude mid-zone, hemisphere by seed), odd frame newer
lon_zone!(c08_lon_nl34_odd, 34, 1);
// @harness name=c08_lon_nl35_even props=C08 tier=thorough cap=7200 family=c08lon quickpick=0 needs=kfmod
// all longitudes in latitude zone NL=35 (latitude mid-zone, hemisphere by seed), even frame newer
lon_zone!(c08_lon_nl35_even, 35, 0);
// @harness name=c08_lon_nl35_odd props=C08 tier=thorough cap=7200 family=c08lon quickpick=0 needs=kfmod
// all longitudes in latitude zone NL=35 (latitude mid-zone, hemisphere by seed), odd frame newer
lon_zone!(c08_lon_nl35_odd, 35, 1);
// @harness name=c08_lon_nl36_even props=C08 tier=thorough cap=7200 family=c08lon quickpick=0 needs=kfmod
// all longitudes in latitude zone NL=36 (latitude mid-zone, hemisphere by seed), even frame newer
lon_zone!(c08_lon_nl36_even, 36, 0);
// @harness name=c08_lon_nl36_odd props=C08 tier=thorough cap=7200 family=c08lon quickpick=0 needs=kfmod
// all longitudes in latitude zone NL=36 (latitude mid-zone, hemisphere by seed), odd frame newer
lon_zone!(c08_lon_nl36_odd, 36, 1);
// @harness name=c08_lon_nl37_even props=C08 tier=thorough cap=7200 family=c08lon quickpick=0 needs=kfmod
// all longitudes in latitude zone NL=37 (latitude mid-zone, hemisphere by seed), even frame newer
lon_zone!(c08_lon_nl37_even, 37, 0);
// @harness name=c08_lon_nl37_odd props=C08 tier=thorough cap=7200 family=c08lon quickpick=0 needs=kfmod
// all longitudes in latitude zone NL=37 (latitude mid-zone, hemisphere by seed), odd frame newer
lon_zone!(c08_lon_nl37_odd, 37, 1);
// @harness name=c08_lon_nl38_even props=C08 tier=thorough cap=7200 family=c08lon quickpick=0 needs=kfmod
// all longitudes in latitude zone NL=38 (latitude mid-zone, hemisphere by seed), even frame newer
lon_zone!(c08_lon_nl38_even, 38, 0);
// @harness name=c08_lon_nl38_odd props=C08 tier=thorough cap=7200 family=c08lon quickpick=0 needs=kfmod
// all longitudes in latitude zone NL=38 (latitude mid-zone, hemisphere by seed), odd frame newer
lon_zone!(c08_lon_nl38_odd, 38, 1);
// @harness name=c08_lon_nl39_even props=C08 tier=thorough cap=7200 family=c08lon quickpick=0 needs=kfmod
// all longitudes in latitude zone NL=39 (latitude mid-zone, hemisphere by seed), even frame newer
lon_zone!(c08_lon_nl39_even, 39, 0);
// @harness name=c08_lon_nl39_odd props=C08 tier=thorough cap=7200 family=c08lon quickpick=0 needs=kfmod
// all longitudes in latitude zone NL=39 (latitude mid-zone, hemisphere by seed), odd frame newer
lon_zone!(c08_lon_nl39_odd, 39, 1);
// @harness name=c08_lon_nl40_even props=C08 tier=thorough cap=7200 family=c08lon quickpick=0 needs=kfmod
// all longitudes in latitude zone NL=40 (latitude mid-zone, hemisphere by seed), even frame newer
lon_zone!(c08_lon_nl40_even, 40, 0);
// @harness name=c08_lon_nl40_odd props=C08 tier=thorough cap=7200 family=c08lon quickpick=0 needs=kfmod
// all longitudes in latitude zone NL=40 (latitude mid-zone, hemisphere by seed), odd frame newer
lon_zone!(c08_lon_nl40_odd, 40, 1);
// @harness name=c08_lon_nl41_even props=C08 tier=thorough cap=7200 family=c08lon quickpick=0 needs=kfmod
// all longitudes in latitude zone NL=41 (latitude mid-zone, hemisphere by seed), even frame newer
lon_zone!(c08_lon_nl41_even, 41, 0);
// @harness name=c08_lon_nl41_odd props=C08 tier=thorough cap=7200 family=c08lon quickpick=0 needs=kfmod
// all longitudes in latitude zone NL=41 (latitude mid-zone, hemisphere by seed), odd frame newer
lon_zone!(c08_lon_nl41_odd, 41, 1);
// @harness name=c08_lon_nl42_even props=C08 tier=thorough cap=7200 family=c08lon quickpick=0 needs=kfmod
// all longitudes in latitude zone NL=42 (latitude mid-zone, hemisphere by seed), even frame newer
lon_zone!(c08_lon_nl42_even, 42, 0);
// @harness name=c08_lon_nl42_odd props=C08 tier=thorough cap=7200 family=c08lon quickpick=0 needs=kfmod
// all longitudes in latitude zone NL=42 (latitude mid-zone, hemisphere by seed), odd frame newer
lon_zone!(c08_lon_nl42_odd, 42, 1);
// @harness name=c08_lon_nl43_even props=C08 tier=thorough cap=7200 family=c08lon quickpick=0 needs=kfmod
// all longitudes in latitude zone NL=43 (latitude mid-zone, hemisphere by seed), even frame newer
lon_zone!(c08_lon_nl43_even, 43, 0);
// @harness name=c08_lon_nl43_odd props=C08 tier=thorough cap=7200 family=c08lon quickpick=0 needs=kfmod
// all longitudes in latitude zone NL=43 (latitude mid-zone, hemisphere by seed), odd frame newer
lon_zone!(c08_lon_nl43_odd, 43, 1);
// @harness name=c08_lon_nl44_even props=C08 tier=thorough cap=7200 family=c08lon quickpick=0 needs=kfmod
// all longitudes in latitude zone NL=44 (latitude mid-zone, hemisphere by seed), even frame newer
lon_zone!(c08_lon_nl44_even, 44, 0);
// @harness name=c08_lon_nl44_odd props=C08 tier=thorough cap=7200 family=c08lon quickpick=0 needs=kfmod
// all longitudes in latitude zone NL=44 (latitude mid-zone, hemisphere by seed), odd frame newer
lon_zone!(c08_lon_nl44_odd, 44, 1);
// @harness name=c08_lon_nl45_even props=C08 tier=thorough cap=7200 family=c08lon quickpick=0 needs=kfmod
// all longitudes in latitude zone NL=45 (latitude mid-zone, hemisphere by seed), even frame newer
lon_zone!(c08_lon_nl45_even, 45, 0);
// @harness name=c08_lon_nl45_odd props=C08 tier=thorough cap=7200 family=c08lon quickpick=0 needs=kfmod
// all longitudes in latitude zone NL=45 (latitude mid-zone, hemisphere by seed), odd frame newer
lon_zone!(c08_lon_nl45_odd, 45, 1);
// @harness name=c08_lon_nl46_even props=C08 tier=thorough cap=7200 family=c08lon quickpick=0 needs=kfmod
// all longitudes in latitude zone NL=46 (latitude mid-zone, hemisphere by seed), even frame newer
lon_zone!(c08_lon_nl46_even, 46, 0);
// @harness name=c08_lon_nl46_odd props=C08 tier=thorough cap=7200 family=c08lon quickpick=0 needs=kfmod
// all longitudes in latitude zone NL=46 (latitude mid-zone, hemisphere by seed), odd frame newer
lon_zone!(c08_lon_nl46_odd, 46, 1);
// @harness name=c08_lon_nl47_even props=C08 tier=thorough cap=7200 family=c08lon quickpick=0 needs=kfmod
// all longitudes in latitude zone NL=47 (latitude mid-zone, hemisphere by seed), even frame newer
lon_zone!(c08_lon_nl47_even, 47, 0);
// @harness name=c08_lon_nl47_odd props=C08 tier=thorough cap=7200 family=c08lon quickpick=0 needs=kfmod
// all longitudes in latitude zone NL=47 (latitude mid-zone, hemisphere by seed), odd frame newer
lon_zone!(c08_lon_nl47_odd, 47, 1);
// @harness name=c08_lon_nl48_even props=C08 tier=thorough cap=7200 family=c08lon quickpick=0 needs=kfmod
// all longitudes in latitude zone NL=48 (latitude mid-zone, hemisphere by seed), even frame newer
lon_zone!(c08_lon_nl48_even, 48, 0);
// @harness name=c08_lon_nl48_odd props=C08 tier=thorough cap=7200 family=c08lon quickpick=0 needs=kfmod
// all longitudes in latitude zone NL=48 (latitude mid-zone, hemisphere by seed), odd frame newer
lon_zone!(c08_lon_nl48_odd, 48, 1);
// @harness name=c08_lon_nl49_even props=C08 tier=thorough cap=7200 family=c08lon quickpick=0 needs=kfmod
// all longitudes in latitude zone NL=49 (latitude mid-zone, hemisphere by seed), even frame newer
lon_zone!(c08_lon_nl49_even, 49, 0);
// @harness name=c08_lon_nl49_odd props=C08 tier=thorough cap=7200 family=c08lon quickpick=0 needs=kfmod
// all longitudes in latitude zone NL=49 (latitude mid-zone, hemisphere by seed), odd frame newer
lon_zone!(c08_lon_nl49_odd, 49, 1);
// @harness name=c08_lon_nl50_even props=C08 tier=thorough cap=7200 family=c08lon quickpick=0 needs=kfmod
// all longitudes in latitude zone NL=50 (latitude mid-zone, hemisphere by seed), even frame newer
lon_zone!(c08_lon_nl50_even, 50, 0);
// @harness name=c08_lon_nl50_odd props=C08 tier=thorough cap=7200 family=c08lon quickpick=0 needs=kfmod
// all longitudes in latitude zone NL=50 (latitude mid-zone, hemisphere by seed), odd frame newer
lon_zone!(c08_lon_nl50_odd, 50, 1);
// @harness name=c08_lon_nl51_even props=C08 tier=thorough cap=7200 family=c08lon quickpick=0 needs=kfmod
// all longitudes in latitude zone NL=51 (latitude mid-zone, hemisphere by seed), even frame newer
lon_zone!(c08_lon_nl51_even, 51, 0);
// @harness name=c08_lon_nl51_odd props=C08 tier=thorough cap=7200 family=c08lon quickpick=0 needs=kfmod
// all longitudes in latitude zone NL=51 (latitude mid-zone, hemisphere by seed), odd frame newer
lon_zone!(c08_lon_nl51_odd, 51, 1);
// @harness name=c08_lon_nl52_even props=C08 tier=thorough cap=7200 family=c08lon quickpick=0 needs=kfmod
// all longitudes in latitude zone NL=52 (latitude mid-zone, hemisphere by seed), even frame newer
lon_zone!(c08_lon_nl52_even, 52, 0);
// @harness name=c08_lon_nl52_odd props=C08 tier=thorough cap=7200 family=c08lon quickpick=0 needs=kfmod
// all longitudes in latitude zone NL=52 (latitude mid-zone, hemisphere by seed), odd frame newer
lon_zone!(c08_lon_nl52_odd, 52, 1);
// @harness name=c08_lon_nl53_even props=C08 tier=thorough cap=7200 family=c08lon quickpick=0 needs=kfmod
// all longitudes in latitude zone NL=53 (latitude mid-zone, hemisphere by seed), even frame newer
lon_zone!(c08_lon_nl53_even, 53, 0);
// @harness name=c08_lon_nl53_odd props=C08 tier=thorough cap=7200 family=c08lon quickpick=0 needs=kfmod
// all longitudes in latitude zone NL=53 (latitude mid-zone, hemisphere by seed), odd frame newer
lon_zone!(c08_lon_nl53_odd, 53, 1);
// @harness name=c08_lon_nl54_even props=C08 tier=thorough cap=7200 family=c08lon quickpick=0 needs=kfmod
// all longitudes in latitude zone NL=54 (latitude mid-zone, hemisphere by seed), even frame newer
lon_zone!(c08_lon_nl54_even, 54, 0);
// @harness name=c08_lon_nl54_odd props=C08 tier=thorough cap=7200 family=c08lon quickpick=0 needs=kfmod
// all longitudes in latitude zone NL=54 (latitude mid-zone, hemisphere by seed), odd frame newer
lon_zone!(c08_lon_nl54_odd, 54, 1);
// @harness name=c08_lon_nl55_even props=C08 tier=thorough cap=7200 family=c08lon quickpick=0 needs=kfmod
// all longitudes in latitude zone NL=55 (latitude mid-zone, hemisphere by seed), even frame newer
lon_zone!(c08_lon_nl55_even, 55, 0);
// @harness name=c08_lon_nl55_odd props=C08 tier=thorough cap=7200 family=c08lon quickpick=0 needs=kfmod
// all longitudes in latitude zone NL=55 (latitude mid-zone, hemisphere by seed), odd frame newer
lon_zone!(c08_lon_nl55_odd, 55, 1);
// @harness name=c08_lon_nl56_even props=C08 tier=thorough cap=7200 family=c08lon quickpick=0 needs=kfmod
// all longitudes in latitude zone NL=56 (latitude mid-zone, hemisphere by seed), even frame newer
lon_zone!(c08_lon_nl56_even, 56, 0);
// @harness name=c08_lon_nl56_odd props=C08 tier=thorough cap=7200 family=c08lon quickpick=0 needs=kfmod
// all longitudes in latitude zone NL=56 (latitude mid-zone, hemisphere by seed), odd frame newer
lon_zone!(c08_lon_nl56_odd, 56, 1);
// @harness name=c08_lon_nl57_even props=C08 tier=thorough cap=7200 family=c08lon quickpick=0 needs=kfmod
// all longitudes in latitude zone NL=57 (latitude mid-zone, hemisphere by seed), even frame newer
lon_zone!(c08_lon_nl57_even, 57, 0);
// @harness name=c08_lon_nl57_odd props=C08 tier=thorough cap=7200 family=c08lon quickpick=0 needs=kfmod
// all longitudes in latitude zone NL=57 (latitude mid-zone, hemisphere by seed), odd frame newer
lon_zone!(c08_lon_nl57_odd, 57, 1);
// @harness name=c08_lon_nl58_even props=C08 tier=thorough cap=7200 family=c08lon quickpick=0 needs=kfmod
// all longitudes in latitude zone NL=58 (latitude mid-zone, hemisphere by seed), even frame newer
lon_zone!(c08_lon_nl58_even, 58, 0);
// @harness name=c08_lon_nl58_odd props=C08 tier=thorough cap=7200 family=c08lon quickpick=0 needs=kfmod
// all longitudes in latitude zone NL=58 (latitude mid-zone, hemisphere by seed), odd frame newer
lon_zone!(c08_lon_nl58_odd, 58, 1);
// @harness name=c08_lon_nl59_even props=C08 tier=thorough cap=7200 family=c08lon quickpick=0 needs=kfmod
// all longitudes in latitude zone NL=59 (latitude mid-zone, hemisphere by seed), even frame newer
lon_zone!(c08_lon_nl59_even, 59, 0);
// @harness name=c08_lon_nl59_odd props=C08 tier=thorough cap=7200 family=c08lon quickpick=0 needs=kfmod
// all longitudes in latitude zone NL=59 (latitude mid-zone, hemisphere by seed), odd frame newer
lon_zone!(c08_lon_nl59_odd, 59, 1);
